use vh::procsys::*;
use vh::simnet::*;

fn probe(src: &str, workers: usize, strat: Strategy, seed: u64) {
    let b = vh::qv::builtins();
    let bc = match compile_entry(src, &b) { Ok(bc) => bc, Err(e) => { println!("compile error: {:?}", e); return; } };
    let mut sim = Sim::new(workers, &b, false, None);
    let st = start_program(&mut sim, bc).unwrap();
    let mut rng = vh::rng::Rng::new(seed);
    let end = sim.run(strat, QuantumPolicy::Mixed, &mut rng, 100000, &|| false, &mut |_s| false);
    let root = poll_root(&mut sim, &st);
    println!("end={:?} steps={} root={:?}", end, sim.actions.len(), root.map(|r| canon_root(&sim, &r, st.pid)));
    for (n, f) in fates(&sim, st.pid) { println!("  {} => {}", n, match f { Fate::Done(v) => v.show(), o => format!("{:?}", o) }); }
}

fn main() {
    let args: Vec<String> = std::env::args().collect();
    if args.len() >= 3 && args[1] == "probe" {
        let src = if std::path::Path::new(&args[2]).exists() { std::fs::read_to_string(&args[2]).unwrap() } else { args[2].clone() };
        let workers = args.get(3).and_then(|s| s.parse().ok()).unwrap_or(2);
        let seed = args.get(4).and_then(|s| s.parse().ok()).unwrap_or(1);
        for strat in [Strategy::Eager, Strategy::Uniform, Strategy::Lazy] { probe(&src, workers, strat, seed); }
    }
}
