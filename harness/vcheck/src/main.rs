use vh::procsys::*;
use vh::report::Report;
use vh::simnet::*;

fn probe(src: &str, workers: usize, strat: Strategy, seed: u64) {
    let b = vh::qv::builtins();
    let bc = match compile_entry(src, &b) { Ok(bc) => bc, Err(e) => { println!("compile error: {:?}", e); return; } };
    let mut sim = Sim::new(workers, &b, false, None);
    let st = start_program(&mut sim, bc).unwrap();
    let mut rng = vh::rng::Rng::new(seed);
    let end = sim.run(strat, QuantumPolicy::Mixed, &mut rng, 100000, &|| false, &mut |_s| false);
    let root = poll_root(&mut sim, &st);
    println!("end={:?} steps={} root={:?}", end, sim.actions.len(), root.map(|r| canon_root(&sim, &r, st.pid)));
    for (n, f) in fates(&sim, st.pid) { println!("  {} => {}", n, match f { Fate::Done(v) => v.show(), o => format!("{:?}", o) }); }
}

fn quiver_compiler_parse(s: &str) -> bool { vh::qv::parses(s) }

fn quiver_compiler_parse_ast(s: &str) -> Result<vh::c17::AstProgram, String> { vh::c17::parse_ast(s) }

fn main() {
    let args: Vec<String> = std::env::args().collect();
    if args.len() >= 3 && args[1] == "probe" {
        let src = if std::path::Path::new(&args[2]).exists() { std::fs::read_to_string(&args[2]).unwrap() } else { args[2].clone() };
        let workers = args.get(3).and_then(|s| s.parse().ok()).unwrap_or(2);
        let seed = args.get(4).and_then(|s| s.parse().ok()).unwrap_or(1);
        for strat in [Strategy::Eager, Strategy::Uniform, Strategy::Lazy] { probe(&src, workers, strat, seed); }
        return;
    }
    if args.len() >= 3 && args[1] == "replay" {
        let j: serde_json::Value = serde_json::from_str(&std::fs::read_to_string(&args[2]).unwrap()).unwrap();
        let w = &j["witness"];
        let src = w["source"].as_str().unwrap();
        let workers = w["workers"].as_u64().unwrap() as usize;
        let acts: Vec<Act> = w["actions"].as_array().unwrap().iter().filter_map(act_from_json).collect();
        let upto: usize = args.get(3).and_then(|s| s.parse().ok()).unwrap_or(acts.len());
        let b = vh::qv::builtins();
        let bc = compile_entry(src, &b).unwrap();
        let mut sim = Sim::new(workers, &b, false, None);
        let st = start_program(&mut sim, bc).unwrap();
        let verbose = args.get(4).is_some();
        for (i, a) in acts.iter().take(upto).enumerate() {
            if verbose && i + 12 >= upto.min(acts.len()) || (verbose && args.get(5).is_some() && i >= args[5].parse::<usize>().unwrap()) {
                if let Some(p) = sim.process(st.pid) {
                    let fr = p.frames.last().map(|f| (f.function_index, f.counter));
                    let instr = fr.and_then(|(fi, c)| sim.env.get_program().get_function(fi).and_then(|f| f.instructions.get(c).copied()));
                    println!("before {} {:?}: root frames={} top={:?} instr={:?} stack={} locals={} select={:?} awaiting={:?} sched={:?}", i, a, p.frames.len(), fr, instr, p.stack.len(), p.locals.len(),
                        p.select_state.as_ref().map(|s| (s.sources.len(), s.receiving.is_some(), s.start_time)), p.awaiting.keys().collect::<Vec<_>>(), sim.workers[0].verif_executor().verif_sched_view());
                }
            }
            sim.act(*a);
            if verbose {
                sim.with_log(|log| for e in log.iter().filter(|e| e.at == i + 1) { let d = format!("{:?}", e.item); println!("    log {:?} w{} {}", e.stage, e.worker, &d[..d.len().min(150)]); });
                let f = fates(&sim, st.pid);
                let failed: Vec<_> = f.iter().filter(|(_, v)| matches!(v, Fate::Failed(_))).collect();
                if !failed.is_empty() { println!("after action {} {:?}: failed {:?}", i, a, failed); break; }
            }
        }
        println!("trouble={:?}", sim.trouble);
        for (n, f) in fates(&sim, st.pid) { println!("  {} => {}", n, match f { Fate::Done(v) => v.show(), o => format!("{:?}", o) }); }
        return;
    }
    // child entries must not outlive their parent (a parent killed by `timeout` would otherwise leave them spinning)
    if args.len() >= 2 && args[1].ends_with("-child") || args.len() >= 2 && args[1] == "c18-ladders" {
        let parent = std::os::unix::process::parent_id();
        std::thread::spawn(move || loop { std::thread::sleep(std::time::Duration::from_secs(2)); if std::os::unix::process::parent_id() != parent { std::process::exit(3); } });
    }
    if args.len() >= 7 && args[1] == "c18-child" {
        let p = |i: usize| args[i].parse::<u64>().unwrap();
        vh::c18::child_main(p(2), p(3), p(4), p(5), p(6));
        return;
    }
    if args.len() >= 2 && args[1] == "c18-ladders" { vh::c18::ladders_child(); return; }
    if args.len() >= 7 && args[1] == "c12-child" {
        let p = |i: usize| args[i].parse::<u64>().unwrap();
        vh::c12::child_main(p(2), p(3), p(4), p(5), p(6));
        return;
    }
    if args.len() >= 3 && args[1] == "fmt" {
        let src = if std::path::Path::new(&args[2]).exists() { std::fs::read_to_string(&args[2]).unwrap() } else { args[2].replace("\\n", "\n") };
        println!("{:?}", vh::c17::judge_shrunk(&src).0);
        if let Ok(ast) = quiver_compiler_parse_ast(&src) { let f = vh::c17::fmt(&ast, &src); println!("--- formatted ---\n{}--- again ---\n{}", f, quiver_compiler_parse_ast(&f).map(|a| vh::c17::fmt(&a, &f)).unwrap_or("<reparse failed>".into())); }
        return;
    }
    if args.len() >= 2 && args[1] == "refsem-cal" {
        vh::pool::quiet_panics();
        let items = vh::corpus::load("/repo");
        let mods = vh::refsem::std_sources("/repo");
        let b = vh::qv::builtins();
        let (mut agree, mut disagree, mut unsup, mut other) = (0, 0, 0, 0);
        let mut reasons: std::collections::BTreeMap<String, usize> = Default::default();
        let only: Option<&String> = args.get(2);
        for it in &items {
            if !it.origin.starts_with("tests/") && !it.origin.starts_with("docs") { continue; }
            if let Some(o) = only { if !it.src.contains(o.as_str()) { continue; } }
            let t0 = std::time::Instant::now();
            let compiled = match std::panic::catch_unwind(|| vh::procsys::run_source_capped(&it.src, &b, 2000)) { Ok(Ok(o)) => o, _ => { other += 1; continue; } };
            let src = it.src.clone(); let mods2 = mods.clone();
            let h = std::thread::Builder::new().stack_size(512 << 20).spawn(move || vh::refsem::evaluate(&src, &mods2).0).unwrap();
            let Ok(reference) = h.join() else { other += 1; continue };
            if t0.elapsed().as_secs() >= 2 { println!("SLOW {}s [{}] {}", t0.elapsed().as_secs(), it.origin, it.src.trim().chars().take(80).collect::<String>()); }
            match (&compiled, &reference) {
                (_, vh::refsem::Outcome::Unsupported(r)) => { unsup += 1; *reasons.entry(r.clone()).or_insert(0) += 1; }
                (_, vh::refsem::Outcome::Budget) => { other += 1; }
                (_, vh::refsem::Outcome::TypeError(r)) => { unsup += 1; *reasons.entry(format!("type error: {}", r)).or_insert(0) += 1; }
                (vh::qv::RunOutcome::Value(c), vh::refsem::Outcome::Value(r)) => { if vh::refsem::normalize_cv(c) == vh::refsem::normalize_cv(r) { agree += 1; } else { disagree += 1; if disagree <= 40 || only.is_some() { println!("DISAGREE [{}]\n{}\n  compiled  => {}\n  reference => {}\n", it.origin, it.src.trim(), c.show(), r.show()); } } }
                (vh::qv::RunOutcome::Error(_), vh::refsem::Outcome::Error(_)) => agree += 1,
                (c, r) => { disagree += 1; if disagree <= 40 || only.is_some() { println!("DISAGREE-KIND [{}]\n{}\n  compiled  => {:?}\n  reference => {:?}\n", it.origin, it.src.trim(), c, r); } }
            }
        }
        println!("agree={} disagree={} unsupported={} other={}", agree, disagree, unsup, other);
        let mut rs: Vec<_> = reasons.into_iter().collect(); rs.sort_by_key(|x| std::cmp::Reverse(x.1));
        for (r, n) in rs.iter().take(25) { println!("  unsupported {:4} {}", n, r); }
        return;
    }
    if args.len() >= 2 && args[1] == "c02-gen" {
        vh::pool::quiet_panics();
        let n: u64 = args.get(2).and_then(|s| s.parse().ok()).unwrap_or(10);
        let seed: u64 = args.get(3).and_then(|s| s.parse().ok()).unwrap_or(1);
        let show = args.get(4).map(|s| s == "show").unwrap_or(false);
        let b = vh::qv::builtins(); let mods = vh::refsem::std_sources("/repo");
        let (mut ag, mut rej, mut inc, mut dis) = (0, 0, 0, 0);
        let mut whys: std::collections::BTreeMap<String, usize> = Default::default();
        for j in 0..n {
            let mut rng = vh::rng::Rng::derive(seed, "C02-gen", 0, j);
            let fuel = *rng.pick(&[4i64, 8, 16, 30, 60]);
            let mut g = vh::c02::Gen::new(&mut rng, fuel);
            let src = g.program();
            let src2 = src.clone(); let b2 = b.clone(); let mods2 = mods.clone();
            let h = std::thread::Builder::new().stack_size(512 << 20).spawn(move || vh::c02::judge(&src2, &b2, &mods2, None)).unwrap();
            match h.join() {
                Ok(vh::c02::Verdict::Agree) => { ag += 1; if show { println!("AGREE\n{}\n", src); } }
                Ok(vh::c02::Verdict::Rejected(_)) => { rej += 1; if show || args.get(4).map(|s| s == "rej").unwrap_or(false) { println!("REJECTED {:?}\n{}\n", vh::procsys::compile_entry(&src, &b).err(), src); } }
                Ok(vh::c02::Verdict::Inconclusive(w)) => { inc += 1; *whys.entry(w).or_insert(0) += 1; }
                Ok(vh::c02::Verdict::Disagree(c, r, ev)) => { dis += 1; println!("events {:?}", ev); println!("DISAGREE\n{}\n  compiled  => {}\n  reference => {}\n", src, c, r); }
                Err(_) => { println!("PANIC\n{}\n", src); }
            }
        }
        println!("agree={} rejected={} inconclusive={} disagree={} {:?}", ag, rej, inc, dis, whys);
        return;
    }
    if args.len() >= 3 && args[1] == "c02-one" {
        vh::pool::quiet_panics();
        let src = if std::path::Path::new(&args[2]).exists() { std::fs::read_to_string(&args[2]).unwrap() } else { args[2].clone() };
        let b = vh::qv::builtins(); let mods = vh::refsem::std_sources("/repo");
        let h = std::thread::Builder::new().stack_size(512 << 20).spawn(move || match vh::c02::judge(&src, &b, &mods, None) { vh::c02::Verdict::Agree => println!("AGREE"), vh::c02::Verdict::Rejected(k) => println!("REJECTED {}", k), vh::c02::Verdict::Inconclusive(w) => println!("INCONCLUSIVE {}", w), vh::c02::Verdict::Disagree(c, r, e) => println!("DISAGREE {:?}\n  compiled  {}\n  reference {}", e, c, r) }).unwrap();
        h.join().ok();
        return;
    }
    if args.len() >= 3 && args[1] == "repl-lines" {
        // lines separated by " ;; "
        let b = vh::qv::builtins();
        let mut sess = vh::procsys::ReplSession::new(1, &b, Default::default());
        sess.sim.set_logging(false);
        let mut rng = vh::rng::Rng::new(1);
        for line in args[2].split(" ;; ") {
            let out = sess.eval(line, Strategy::Eager, &mut rng);
            println!("> {}\n  {}", line, format!("{:?}", out).chars().take(300).collect::<String>());
            println!("  vars: {:?}", sess.repl.get_variables());
        }
        return;
    }
    if args.len() >= 3 && args[1] == "ty" {
        let b = vh::qv::builtins();
        match vh::qv::compile(&args[2], &b) { Ok(cp) => println!("{}", vh::qv::show_type(&cp)), Err(e) => println!("compile error: {:?}", e) }
        return;
    }
    if args.len() >= 3 && args[1] == "bc" {
        let b = vh::qv::builtins();
        match compile_entry(&args[2], &b) { Ok(bc) => { println!("entry={:?} constants={:?}", bc.entry, bc.constants); for (i, f) in bc.functions.iter().enumerate() { println!("fn {} captures={}", i, f.captures); for (k, ins) in f.instructions.iter().enumerate() { println!("  {:3} {:?}", k, ins); } } } Err(e) => println!("compile error: {:?}", e) }
        return;
    }
    if args.len() >= 3 && args[1] == "ast" { println!("{:#?}", vh::c17::parse_ast(&args[2])); return; }
    if args.len() >= 2 && args[1] == "corpus" {
        let items = vh::corpus::load("/repo");
        let parse_ok = items.iter().filter(|i| quiver_compiler_parse(&i.src)).count();
        let mut by: std::collections::BTreeMap<String, usize> = Default::default();
        for i in &items { *by.entry(i.origin.split('/').next().unwrap_or("").to_string()).or_insert(0) += 1; }
        println!("{} items, {} parse; by origin {:?}", items.len(), parse_ok, by);
        return;
    }
    if args.len() >= 3 && args[1] == "ioprobe" {
        let src = if std::path::Path::new(&args[2]).exists() { std::fs::read_to_string(&args[2]).unwrap() } else { args[2].clone() };
        let b = vh::qv::builtins_io();
        let bc = match compile_entry(&src, &b) { Ok(bc) => bc, Err(e) => { println!("compile error: {:?}", e); return; } };
        let (mb, st) = vh::mockio::MockBackend::new(args.get(3).and_then(|s| s.parse().ok()).unwrap_or(0));
        let mut sim = Sim::new(2, &b, false, Some(Box::new(mb)));
        let started = start_program(&mut sim, bc).unwrap();
        let mut rng = vh::rng::Rng::new(1);
        let st2 = st.clone();
        let end = sim.run(Strategy::Eager, QuantumPolicy::Fixed(1000), &mut rng, 100000, &move || !st2.lock().unwrap().deferred.is_empty(), &mut |_s| false);
        println!("end={:?}", end);
        for (n, f) in fates(&sim, started.pid) { println!("  {} => {}", n, match f { Fate::Done(v) => v.show(), o => format!("{:?}", o) }); }
        for c in &st.lock().unwrap().calls { println!("  backend: {:?}", c); }
        println!("  ownership at end: {:?}", sim.env.verif_resource_ownership());
        return;
    }
    if args.len() >= 3 && args[1] == "heap" {
        let src = if std::path::Path::new(&args[2]).exists() { std::fs::read_to_string(&args[2]).unwrap() } else { args[2].clone() };
        let b = vh::qv::builtins();
        let bc = match compile_entry(&src, &b) { Ok(bc) => bc, Err(e) => { println!("compile error: {:?}", e); return; } };
        vh::pool::quiet_panics();
        let mut rng = vh::rng::Rng::new(7);
        let mut bad = 0;
        for cfg in vh::c03::sched_variants(&mut rng, 60) {
            let mut sim = Sim::new(cfg.workers, &b, false, None);
            sim.heap_monitor = true;
            let st = start_program(&mut sim, bc.clone()).unwrap();
            let mut r = vh::rng::Rng::new(cfg.seed);
            let root = st.pid;
            let mut end = RunEnd::Stopped;
            if cfg.seed % 2 == 1 {
                end = sim.run(Strategy::StarveEnv, QuantumPolicy::Fixed(1), &mut r, 100000, &|| false, &mut |s: &mut Sim| s.process(root).and_then(|p| p.select_state.as_ref()).map(|x| matches!(x.receiving, Some((1, _)))).unwrap_or(false));
                if end == RunEnd::Stopped { println!("directed: mid-filter on receive source 1 reached, releasing everything"); sim.set_eager(true); }
            }
            if end == RunEnd::Stopped { end = sim.run(if cfg.seed % 2 == 1 { Strategy::Eager } else { cfg.strat }, cfg.qp, &mut r, 100000, &|| false, &mut |_s| false); }
            sim.settle();
            if sim.heap_obs_max.exact_mismatch > 0 { println!("exact multiplicity mismatches observed: {}", sim.heap_obs_max.exact_mismatch); }
            if sim.heap_violation.is_some() || matches!(end, RunEnd::Trouble(_)) {
                bad += 1;
                if bad <= 2 { let hv = sim.heap_violation.clone(); let root = poll_root(&mut sim, &st).map(|r| canon_root(&sim, &r, st.pid)); println!("workers={} {:?} {:?}: end={:?} heap={:?} root={:?}", cfg.workers, cfg.strat, cfg.qp, end, hv, root); }
            }
        }
        println!("{} of 60 schedules violated", bad);
        return;
    }
    if args.len() >= 3 && args[1] == "gen" {
        let seed: u64 = args[2].parse().unwrap();
        let mut rng = vh::rng::Rng::new(seed);
        let sc = vh::scen::generate(&mut rng, &vh::scen::GenCfg { max_nodes: 6, max_depth: 3, confluent: args.get(3).map(|s| s == "c").unwrap_or(true), fail_permille: 0, binaries: true });
        println!("{}", sc.emit());
        return;
    }
    if args.len() < 3 { eprintln!("usage: vcheck <ID> <quick|thorough>"); std::process::exit(2); }
    let id = args[1].as_str();
    let tier = args[2].as_str();
    let seed: u64 = std::env::var("VERIF_SEED").ok().and_then(|s| s.parse().ok()).unwrap_or(1);
    vh::pool::quiet_panics();
    let rep = Report::new(id, tier, seed);
    let code = match id {
        "C03" => { vh::c03::check(&rep); rep.finish(vh::c03::RULE, vh::c03::ASSUME, &[]) }
        "C04" => { vh::c04::check(&rep); rep.finish(vh::c04::RULE, vh::c04::ASSUME, vh::c04::SITUATIONS) }
        "C15" => { vh::c15::check(&rep); rep.finish(vh::c15::RULE, vh::c15::ASSUME, vh::c15::SITUATIONS) }
        "C06" => { vh::c06::check(&rep); rep.finish(vh::c06::RULE, vh::c06::ASSUME, vh::c06::SITUATIONS) }
        "C05" => { vh::c05::check(&rep); rep.finish(vh::c05::RULE, vh::c05::ASSUME, vh::c05::SITUATIONS) }
        "C14" => { vh::c14::check(&rep); rep.finish(vh::c14::RULE, vh::c14::ASSUME, vh::c14::SITUATIONS) }
        "C12" => { vh::c12::check(&rep); rep.finish(vh::c12::RULE, vh::c12::ASSUME, vh::c12::SITUATIONS) }
        "C20" => { vh::c20::check(&rep); rep.finish(vh::c20::RULE, vh::c20::ASSUME, vh::c20::SITUATIONS) }
        "C19" => { vh::c19::check(&rep); rep.finish(vh::c19::RULE, vh::c19::ASSUME, vh::c19::SITUATIONS) }
        "C18" => { vh::c18::check(&rep); rep.finish(vh::c18::RULE, vh::c18::ASSUME, vh::c18::SITUATIONS) }
        "C17" => { vh::c17::check(&rep); rep.finish(vh::c17::RULE, vh::c17::ASSUME, vh::c17::SITUATIONS) }
        "C07" => { vh::c07::check(&rep); rep.finish(vh::c07::RULE, vh::c07::ASSUME, vh::c07::SITUATIONS) }
        "C09" => { vh::c09::check(&rep); rep.finish(vh::c09::RULE, vh::c09::ASSUME, vh::c09::SITUATIONS) }
        "C08" => { vh::c08::check(&rep); rep.finish(vh::c08::RULE, vh::c08::ASSUME, vh::c08::SITUATIONS) }
        "C01" => { vh::c01::check(&rep); rep.finish(vh::c01::RULE, vh::c01::ASSUME, vh::c01::SITUATIONS) }
        "C02" => { vh::c02::check(&rep); rep.finish(vh::c02::RULE, vh::c02::ASSUME, vh::c02::SITUATIONS) }
        "C10" => { vh::c10::check(&rep); rep.finish(vh::c10::RULE, vh::c10::ASSUME, vh::c10::SITUATIONS) }
        "C11" => { vh::c11::check(&rep); rep.finish(vh::c11::RULE, vh::c11::ASSUME, vh::c11::SITUATIONS) }
        "C13" => { vh::c13::check(&rep); rep.finish(vh::c13::RULE, vh::c13::ASSUME, vh::c13::SITUATIONS) }
        "C16" => { vh::c16::check(&rep); rep.finish(vh::c16::RULE, vh::c16::ASSUME, vh::c16::SITUATIONS) }
        _ => { eprintln!("unknown property {}", id); 2 }
    };
    std::process::exit(code);
}
