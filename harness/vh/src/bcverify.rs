//! C07 oracle: forward dataflow over each function; abstract state = (operand-stack height
//! relative to frame entry, interval of locals length relative to the frame's locals base).
use quiver_core::bytecode::{Function, Instruction};
use quiver_core::types::{BuiltinInfo, TupleTypeInfo, Type};

pub struct Tables<'a> {
    pub n_constants: usize,
    pub tuples: &'a [TupleTypeInfo],
    pub types: &'a [Type],
    pub functions: &'a [Function],
    pub builtins: &'a [BuiltinInfo],
    /// `Instruction::Process(pid, f)`: f indexes the *environment's* functions; only checked when true
    pub check_process_fn: bool,
}

#[derive(Clone, Copy, Debug, PartialEq)]
pub struct AbsState { pub h: usize, pub lmin: usize, pub lmax: usize }

#[derive(Default, Debug, Clone)]
pub struct FnStats { pub joins: usize, pub instructions: usize, pub paths_ended: usize }

pub fn verify_function(fi: usize, f: &Function, t: &Tables, initial_locals: usize) -> Result<(FnStats, Vec<Option<AbsState>>), String> {
    let n = f.instructions.len();
    let mut st: Vec<Option<AbsState>> = vec![None; n + 1];
    let mut stats = FnStats::default();
    if f.type_id >= t.types.len() { return Err(format!("function {}: type_id {} out of range ({} types)", fi, f.type_id, t.types.len())); }
    let entry = AbsState { h: 1, lmin: initial_locals, lmax: initial_locals };
    let mut work: Vec<usize> = vec![0];
    st[0] = Some(entry);
    let err = |pc: usize, ins: &Instruction, m: String| Err(format!("function {} pc {} {:?}: {}", fi, pc, ins, m));
    while let Some(pc) = work.pop() {
        let s = st[pc].unwrap();
        if pc == n {
            // fell off the end: exactly one result
            if s.h != 1 { return Err(format!("function {}: leaves {} values on the operand stack at exit (expected exactly 1)", fi, s.h)); }
            stats.paths_ended += 1;
            continue;
        }
        let ins = f.instructions[pc];
        stats.instructions += 1;
        let need = |k: usize| -> Result<(), String> { if s.h < k { Err(format!("function {} pc {} {:?}: operand stack underflow (height {}, needs {})", fi, pc, ins, s.h, k)) } else { Ok(()) } };
        let mut next: Vec<(usize, AbsState)> = vec![];
        let mut out = s;
        let mut falls = true;
        match ins {
            Instruction::Constant(i) => { if i >= t.n_constants { return err(pc, &ins, format!("constant index out of range ({} constants)", t.n_constants)); } out.h += 1; }
            Instruction::Pop => { need(1)?; out.h -= 1; }
            Instruction::Duplicate => { need(1)?; out.h += 1; }
            Instruction::Pick(k) => { need(k + 1)?; out.h += 1; }
            Instruction::Rotate(k) => { if k == 0 { return err(pc, &ins, "Rotate(0)".into()); } need(k)?; }
            Instruction::Reset(k) => { if k > s.lmin { return err(pc, &ins, format!("resets locals to {} but only {} are guaranteed on some path", k, s.lmin)); } out.lmin = k; out.lmax = k; }
            Instruction::Load(i) => { if i >= s.lmin { return err(pc, &ins, format!("reads local {} but only {} locals are defined on every path reaching it", i, s.lmin)); } out.h += 1; }
            Instruction::Store => { need(1)?; out.h -= 1; out.lmin += 1; out.lmax += 1; }
            Instruction::Tuple(id) => { let Some(info) = t.tuples.get(id) else { return err(pc, &ins, format!("tuple id out of range ({} tuples)", t.tuples.len())); }; let a = info.fields.len(); need(a)?; out.h = out.h - a + 1; }
            Instruction::Get(_) => { need(1)?; }
            Instruction::IsType(id) => { if id >= t.types.len() { return err(pc, &ins, format!("type id out of range ({} types)", t.types.len())); } need(1)?; }
            Instruction::Jump(off) => { falls = false; let tgt = pc as isize + off + 1; if tgt < 0 || tgt as usize > n { return err(pc, &ins, format!("jump target {} outside [0, {}]", tgt, n)); } next.push((tgt as usize, out)); }
            Instruction::JumpIf(off) => { need(1)?; out.h -= 1; let tgt = pc as isize + off + 1; if tgt < 0 || tgt as usize > n { return err(pc, &ins, format!("jump target {} outside [0, {}]", tgt, n)); } next.push((tgt as usize, out)); }
            Instruction::Call => { need(2)?; out.h -= 1; }
            Instruction::TailCall(true) => { need(1)?; if s.h != 1 { return err(pc, &ins, format!("tail call with {} values on the operand stack (expected exactly the argument): the surplus would accumulate per iteration", s.h)); } falls = false; stats.paths_ended += 1; }
            Instruction::TailCall(false) => { need(2)?; if s.h != 2 { return err(pc, &ins, format!("tail call with {} values on the operand stack (expected exactly argument and function)", s.h)); } falls = false; stats.paths_ended += 1; }
            Instruction::Function(g) => { let Some(gf) = t.functions.get(g) else { return err(pc, &ins, format!("function index out of range ({} functions)", t.functions.len())); }; need(gf.captures)?; out.h = out.h - gf.captures + 1; }
            Instruction::Builtin(i) => { if i >= t.builtins.len() { return err(pc, &ins, format!("builtin index out of range ({} builtins)", t.builtins.len())); } out.h += 1; }
            Instruction::Equal(k) => { if k == 0 { return err(pc, &ins, "Equal(0)".into()); } need(k)?; out.h = out.h - k + 1; }
            Instruction::Not | Instruction::Select => { need(1)?; }
            Instruction::Spawn | Instruction::Send => { need(2)?; out.h -= 1; }
            Instruction::Self_ => { out.h += 1; }
            Instruction::Process(_, g) => { if t.check_process_fn && g >= t.functions.len() { return err(pc, &ins, format!("process function index out of range ({} functions)", t.functions.len())); } out.h += 1; }
        }
        if falls { next.push((pc + 1, out)); }
        for (tgt, ns) in next {
            match st[tgt] {
                None => { st[tgt] = Some(ns); work.push(tgt); }
                Some(old) => {
                    stats.joins += 1;
                    if old.h != ns.h { return Err(format!("function {}: pc {} is reached with operand-stack heights {} and {} (from pc {})", fi, tgt, old.h, ns.h, pc)); }
                    let merged = AbsState { h: old.h, lmin: old.lmin.min(ns.lmin), lmax: old.lmax.max(ns.lmax) };
                    if merged != old { st[tgt] = Some(merged); work.push(tgt); }
                }
            }
        }
    }
    Ok((stats, st))
}

fn check_type_table(t: &Tables) -> Result<(), String> {
    let nt = t.types.len();
    for (i, ty) in t.types.iter().enumerate() {
        let bad = |what: &str, id: usize| Err(format!("type {} ({:?}): {} {} out of range ({} types / {} tuples)", i, ty, what, id, nt, t.tuples.len()));
        match ty {
            Type::Tuple(id) => if *id >= t.tuples.len() { return bad("tuple id", *id); },
            Type::Partial { fields, .. } => for (_, f) in fields { if *f >= nt { return bad("field type", *f); } },
            Type::Callable { parameter, result, receive } => for x in [parameter, result, receive] { if *x >= nt { return bad("component type", *x); } },
            Type::Union(ms) => for m in ms { if *m >= nt { return bad("member type", *m); } },
            Type::Process { send, receive } => for x in [send, receive].into_iter().flatten() { if *x >= nt { return bad("component type", *x); } },
            _ => {}
        }
    }
    for (i, tu) in t.tuples.iter().enumerate() { for (_, f) in &tu.fields { if *f >= nt { return Err(format!("tuple {} ({:?}): field type {} out of range ({} types)", i, tu.name, f, nt)); } } }
    for b in t.builtins { for x in [b.param_type, b.result_type] { if x >= nt { return Err(format!("builtin {}: type id {} out of range ({} types)", b.name, x, nt)); } } }
    Ok(())
}

#[derive(Default, Debug, Clone)]
pub struct ProgStats { pub functions: usize, pub functions_with_joins: usize, pub joins: usize, pub instructions: usize }

/// Verify every function of a program. `entry_locals(fi)`: initial locals length for function fi
/// (captures for ordinary functions).
pub fn verify_all(t: &Tables, override_locals: &dyn Fn(usize) -> Option<usize>) -> Result<ProgStats, String> {
    check_type_table(t)?;
    let mut ps = ProgStats::default();
    for (fi, f) in t.functions.iter().enumerate() {
        let init = override_locals(fi).unwrap_or(f.captures);
        let (s, _) = verify_function(fi, f, t, init)?;
        ps.functions += 1;
        if s.joins > 0 { ps.functions_with_joins += 1; }
        ps.joins += s.joins;
        ps.instructions += s.instructions;
    }
    Ok(ps)
}
