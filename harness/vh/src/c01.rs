//! C01 — type soundness: an accepted program never ends in a VM-level type failure, and a produced value inhabits the
//! type the compiler inferred for it.
//!
//! Every program of the workload that the real compiler accepts is run on the real worker (capped) and three monitors
//! watch the execution:
//!   stuck      the run (root or any process) ends in a VM-level failure (`qv::is_stuck_error`: TypeMismatch,
//!              FieldAccessInvalid, CallInvalid, StackUnderflow, VariableUndefined, ...) — documented value-domain
//!              errors of partial builtins are fine
//!   inhabits   the produced value structurally inhabits the compiler's inferred result type (walk over the real
//!              Program type registry)
//!   ill-typed  the independent reference evaluator executes the same program and reports a *dynamic* type error
//!              (field that does not exist, argument outside the declared parameter type, non-callable applied, builtin
//!              operand of the wrong kind): the compiler accepted a program whose execution is ill-typed even if the VM
//!              happened not to trap
//! Workload: repository corpus, acceptance-boundary mutations of it (literal kinds swapped, step boundaries removed,
//! branches reordered, `=>` turned into `,`), the C02 generator (plain and nil-binder variants) plus an ill-typing
//! mutator over generated programs, and process programs from the scenario generator.
use crate::c02::{self, Gen};
use crate::qv::{self, CV, RunOutcome};
use crate::refsem::{self, Outcome};
use crate::report::{Report, Violation};
use crate::rng::Rng;
use quiver_core::program::Program;
use quiver_core::types::{Type, TypeLookup};
use serde_json::json;
use std::collections::HashMap;

/// does `v` inhabit type `id`?  None = cannot be decided here (type variables, dangling cycles)
pub fn inhabits(v: &CV, id: usize, p: &Program, stack: &mut Vec<usize>, fuel: usize) -> Option<bool> {
    if fuel > 200 { return None; }
    let t = p.lookup_type(id)?;
    Some(match t {
        Type::Integer => matches!(v, CV::Int(_)),
        Type::Binary => matches!(v, CV::Bin(_)),
        Type::Reference => matches!(v, CV::Ref(_)),
        Type::Tuple(tid) => {
            let info = p.lookup_tuple(*tid)?;
            match v {
                CV::Tuple(name, fields) => {
                    if info.name != *name || info.fields.len() != fields.len() { return Some(false); }
                    for ((vl, vv), (tl, tt)) in fields.iter().zip(info.fields.iter()) { if tl != vl { return Some(false); } if !inhabits(vv, *tt, p, stack, fuel + 1)? { return Some(false); } }
                    true
                }
                _ => false,
            }
        }
        Type::Partial { name, fields } => match v {
            CV::Tuple(vn, vf) => {
                if name.is_some() && name != vn { return Some(false); }
                for (l, ft) in fields { match vf.iter().find(|(vl, _)| vl.as_deref() == Some(l.as_str())) { Some((_, vv)) => if !inhabits(vv, *ft, p, stack, fuel + 1)? { return Some(false); }, None => return Some(false) } }
                true
            }
            _ => false,
        },
        Type::Union(ms) => {
            stack.push(id);
            let mut r = Some(false);
            for m in ms { match inhabits(v, *m, p, stack, fuel + 1) { Some(true) => { r = Some(true); break; } Some(false) => {} None => { r = None; } } }
            stack.pop();
            return r;
        }
        Type::Cycle(d) => {
            if *d == 0 || *d > stack.len() { return None; }
            let ix = stack.len() - d; let target = stack[ix];
            let saved = stack.split_off(ix);
            let r = inhabits(v, target, p, stack, fuel + 1);
            stack.extend(saved);
            return r;
        }
        Type::Variable(_) => return None,
        Type::Callable { .. } => matches!(v, CV::Fn(..) | CV::Builtin(_)),
        Type::Process { .. } => matches!(v, CV::Proc(_)) || matches!(v, CV::Builtin(n) if n.starts_with('@')),
        Type::Resource(_) => matches!(v, CV::Res(_)),
    })
}

/// mutations that move a program across the acceptance boundary: most results are rejected (fine); the accepted ones must
/// still be sound
pub fn ill_mutate(src: &str, rng: &mut Rng) -> String {
    let b: Vec<char> = src.chars().collect();
    let mut out = String::new();
    let mut i = 0; let mut in_str = false;
    let kind = rng.below(6);
    let mut budget = 1 + rng.below(2);
    while i < b.len() {
        let c = b[i];
        if c == '"' { in_str = !in_str; out.push(c); i += 1; continue; }
        if in_str { out.push(c); i += 1; continue; }
        let prev_ident = i > 0 && (b[i - 1].is_alphanumeric() || b[i - 1] == '_' || b[i - 1] == '.' || b[i - 1] == '$');
        if budget > 0 && c.is_ascii_digit() && !prev_ident {
            let mut j = i; while j < b.len() && (b[j].is_ascii_alphanumeric() || b[j] == '_') { j += 1; }
            let tok: String = b[i..j].iter().collect();
            // not the literal that ends a recursion (`=[0, acc]`, `=0`): without its base case a generated loop squares its
            // accumulator for ever and the run cannot be capped by steps
            let before: String = b[..i].iter().rev().filter(|c| !c.is_whitespace()).take(2).collect();
            let in_pattern_head = before.starts_with('=') || before.starts_with("[=");
            if !in_pattern_head && rng.chance(1, 6) {
                budget -= 1;
                match kind {
                    0 => { out += if tok.starts_with("0x") { "7" } else { "0x07" }; }            // int <-> bin
                    1 => { out += "[]"; }                                                        // value -> nil
                    2 => { out += &format!("[{}]", tok); }                                        // scalar -> 1-tuple
                    3 => { out += &format!("A[{}]", tok); }                                       // scalar -> named tuple
                    4 => { out += "\"s\""; }                                                      // scalar -> string
                    _ => { out += &format!("{{ | 1 =2 => 0 | {} }}", tok); }                      // scalar -> union-typed block
                }
            } else { out += &tok; }
            i = j; continue;
        }
        if budget > 0 && kind == 1 && c == ',' && rng.chance(1, 12) { budget -= 1; out.push(' '); i += 1; continue; }  // step boundary -> chain
        if budget > 0 && kind == 2 && c == '=' && i + 1 < b.len() && b[i + 1] == '>' && rng.chance(1, 5) { budget -= 1; out.push(','); i += 2; continue; }
        out.push(c); i += 1;
    }
    out
}

/// static triggers of the recorded type holes, read off the parsed program (used when the reference evaluator cannot run it)
pub fn static_triggers(src: &str) -> Vec<&'static str> {
    use quiver_compiler::ast::*;
    fn seq(s: &Sequence, out: &mut Vec<&'static str>) { for c in &s.chains { chain(c, out); } }
    fn chain(c: &Chain, out: &mut Vec<&'static str>) {
        for (k, t) in c.terms.iter().enumerate() {
            if matches!(t, Term::Match(_)) && k + 1 < c.terms.len() && !out.contains(&"failed_match_then_more_terms_in_chain") { out.push("failed_match_then_more_terms_in_chain"); }
            term(t, out);
        }
    }
    fn expr(e: &Expression, out: &mut Vec<&'static str>) { for b in &e.branches { seq(&b.condition, out); if let Some(c) = &b.consequence { seq(c, out); } } }
    fn term(t: &Term, out: &mut Vec<&'static str>) {
        match t {
            Term::Tuple(tp) => for f in &tp.fields { if let FieldValue::Chain(c) = &f.value { chain(c, out); } },
            Term::String(_, segs) => for sg in segs { if let StrSegment::Hole(e) = sg { expr(e, out); } },
            Term::Block(e) => expr(e, out),
            Term::Function(f) => { if !f.type_parameters.is_empty() && !out.contains(&"generic_function_applied") { out.push("generic_function_applied"); } if let Some(b) = &f.body { expr(b, out); } }
            Term::Spawn(inner, _) => term(inner, out),
            Term::Select(Some(cs), _) => for c in cs { chain(c, out); },
            Term::Access(a) | Term::Reference(a) => { if matches!(a.source, Some(AccessSource::Import(_))) && !out.contains(&"generic_function_applied") { out.push("generic_function_applied"); } if matches!(a.source, Some(AccessSource::TailCall(_))) && !out.contains(&"tail_call_present") { out.push("tail_call_present"); } }
            _ => {}
        }
    }
    let mut out = vec![];
    if let Ok(p) = quiver_compiler::parse(src) { for st in &p.statements { if let Statement::Expression(s) = st { seq(s, &mut out); } } }
    out
}

pub struct Judged { pub accepted: bool, pub problems: Vec<(String, String)>, pub inconclusive: Option<String>, pub events: Vec<&'static str>, pub value: bool }

fn error_kind(e: &quiver_core::error::Error) -> String { let s = format!("{:?}", e); s.split(|c: char| !c.is_alphanumeric()).next().unwrap_or("").to_string() }

/// run one source through compile, capped run and the three monitors
pub fn judge(src: &str, b: &qv::Builtins, mods: &HashMap<String, String>, use_reference: bool) -> Judged {
    let mut j = Judged { accepted: false, problems: vec![], inconclusive: None, events: vec![], value: false };
    let cp = match qv::compile(src, b) { Ok(cp) => cp, Err(_) => return j };
    j.accepted = true;
    let bc = cp.program.to_bytecode(Some(cp.entry));
    // the whole process system, so a stuck child is seen too
    let mut sim = crate::simnet::Sim::new(2, b, false, None);
    sim.set_logging(false);
    let Ok(st) = crate::procsys::start_program(&mut sim, bc) else { j.inconclusive = Some("start failed".into()); return j };
    let mut rng = Rng::new(1);
    let end = sim.run(crate::simnet::Strategy::Eager, crate::simnet::QuantumPolicy::Fixed(1000), &mut rng, 4000, &|| false, &mut |_s| false);
    if let crate::simnet::RunEnd::Trouble(t) = &end {
        let msg = format!("{:?}", t);
        // this host registers the I/O builtins for their signatures only
        if msg.contains("IO builtin registered for its signature only") { j.inconclusive = Some("program performs I/O (no backend in this check)".into()); return j; }
        j.problems.push(("harness-trouble".into(), msg)); return j;
    }
    let root = crate::procsys::poll_root(&mut sim, &st);
    for (name, f) in crate::procsys::fates(&sim, st.pid) {
        if let crate::procsys::Fate::Failed(e) = f { if qv::is_stuck_error(&e) { j.problems.push((format!("stuck:{}", error_kind(&e)), format!("process {} ended in {:?}", name, e))); } }
    }
    match root.map(|r| crate::procsys::canon_root(&sim, &r, st.pid)) {
        Some(crate::procsys::Fate::Done(v)) => {
            j.value = true;
            let mut stack = vec![];
            match inhabits(&v, cp.result_type, &cp.program, &mut stack, 0) {
                Some(true) => {}
                Some(false) => j.problems.push(("value-outside-inferred-type".into(), format!("value {} does not inhabit the inferred result type {}", v.show(), quiver_core::format::format_type_by_id(&cp.program, cp.result_type)))),
                None => j.inconclusive = Some("result type not decidable by the walker (type variable / open cycle)".into()),
            }
        }
        Some(crate::procsys::Fate::Failed(e)) => { if qv::is_stuck_error(&e) && !j.problems.iter().any(|(k, _)| k.starts_with("stuck:")) { j.problems.push((format!("stuck:{}", error_kind(&e)), format!("root ended in {:?}", e))); } }
        _ => { if j.problems.is_empty() { j.inconclusive = Some("did not finish within the step cap".into()); } }
    }
    if use_reference {
        let (reference, counters) = refsem::evaluate(src, mods);
        for e in ["nil_bound_by_bare_binder", "failed_match_then_more_terms_in_chain", "tail_call_argument_outside_parameter_type", "generic_function_applied", "partial_parameter_with_a_field_at_another_index"] { if counters.get(e).copied().unwrap_or(0) > 0 { j.events.push(e); } }
        // outside the reference evaluator: fall back to the triggers visible in the program text
        if matches!(reference, Outcome::Unsupported(_) | Outcome::Budget) { for e in static_triggers(src) { if e != "tail_call_present" && !j.events.contains(&e) { j.events.push(e); } } }
        if let Outcome::TypeError(m) = reference { j.problems.push((format!("ill-typed:{}", m), format!("the reference evaluator hit a dynamic type error ({}) in a program the compiler accepted", m))); }
    }
    j
}

fn cv_hash(s: &str) -> u64 { crate::rng::fnv64(s.as_bytes()) }

pub fn check(rep: &Report) {
    let quick = rep.quick();
    let b = qv::builtins();
    let mods = refsem::std_sources("/repo");
    let items: Vec<crate::corpus::Item> = crate::corpus::load("/repo").into_iter().filter(|i| i.origin.starts_with("tests/") || i.origin.starts_with("docs") || i.origin.starts_with("std")).collect();
    rep.extra("corpus_programs", json!(items.len()));
    let n_mut = if quick { 12_000 } else { 200_000 };
    let n_gen = if quick { 80_000 } else { 600_000 };
    let n_ill = if quick { 50_000 } else { 400_000 };
    let n_scen = if quick { 1_500 } else { 30_000 };
    let total = items.len() + n_mut + n_gen + n_ill + n_scen;
    let watch = crate::pool::Watch::new("C01", 30);
    crate::pool::run_indexed(total, 512, |j| {
        let mut use_reference = true;
        let (family, src): (&str, String) = if j < items.len() { ("corpus", items[j].src.clone()) }
        else if j < items.len() + n_mut { let mut rng = Rng::derive(rep.seed, "C01-mut", 0, j as u64); let it = &items[rng.below(items.len())]; ("mutated", if rng.chance(1, 2) { c02::mutate(&it.src, &mut rng) } else { ill_mutate(&it.src, &mut rng) }) }
        else if j < items.len() + n_mut + n_gen { let mut rng = Rng::derive(rep.seed, "C01-gen", 0, j as u64); let fuel = *rng.pick(&[4i64, 8, 16, 30, 60]); let nilb = rng.chance(1, 8); let partial = !nilb && rng.chance(1, 8); let mut g = Gen::new(&mut rng, fuel); g.allow_nil_binds = nilb; g.allow_partial_params = partial; (if nilb { "generated-nil-binders" } else if partial { "generated-partial-parameters" } else { "generated" }, g.program()) }
        else if j < items.len() + n_mut + n_gen + n_ill { let mut rng = Rng::derive(rep.seed, "C01-ill", 0, j as u64); let fuel = *rng.pick(&[4i64, 8, 16, 30]); let s = { let mut g = Gen::new(&mut rng, fuel); g.program() }; ("generated-ill-mutated", ill_mutate(&s, &mut rng)) }
        else if j % 40 == 7 && j >= items.len() + n_mut + n_gen + n_ill {
            // a dispatching function handed to a higher-order function whose parameter type another dispatching function shares:
            // the call inside is specialised with a table looked up by callable type (recorded finding)
            let mut rng = Rng::derive(rep.seed, "C01-hod", 0, j as u64);
            let (a, b) = (rng.range(0, 9), rng.range(0, 9));
            let third = if rng.chance(1, 2) { " | []" } else { "" };
            ("higher-order-dispatch-templates", format!("f = #('int | 'bin) {{ | ='int => {a} | ='bin => 0x01 }},\ng = #('int | 'bin{third}) {{ | ='int => 0x02 | ='bin => {b}{} }},\napply = #[#('int | 'bin) -> ('int | 'bin), 'int] {{ =[h, x] => x h }},\n[[&{}, 5] apply, 1] __integer_add__", if third.is_empty() { "" } else { " | 3" }, if rng.chance(1, 2) { "g" } else { "f" }))
        }
        else { let mut rng = Rng::derive(rep.seed, "C01-scen", 0, j as u64); let cfg = crate::scen::GenCfg { max_nodes: 6, max_depth: 3, confluent: true, fail_permille: 150, binaries: true }; use_reference = false; ("process-scenarios", crate::scen::generate(&mut rng, &cfg).emit()) };
        watch.enter(j, &src);
        let jd0 = crate::pool::catch(|| judge(&src, &b, &mods, use_reference));
        watch.leave(j);
        let jd = match jd0 { Ok(v) => v, Err(p) => { if p.contains("stack") { rep.count("harness_stack_overflow", 1); return; } Judged { accepted: true, problems: vec![("panic".into(), p)], inconclusive: None, events: vec![], value: false } } };
        if !jd.accepted { rep.count(&format!("{}_rejected_by_compiler", family), 1); return; }
        rep.eval(1); rep.count(&format!("{}_accepted_and_run", family), 1); rep.distinct(cv_hash(&src));
        if jd.value { rep.count("produced_a_value_checked_against_inferred_type", 1); }
        if let Some(w) = &jd.inconclusive { rep.count(&format!("inconclusive: {}", w), 1); }
        if jd.problems.is_empty() { if rep.want_sample() && family.starts_with("generated") { rep.sample(json!({"family": family, "program": src})); } return; }
        for (kind, what) in &jd.problems {
            // attribution to the recorded type holes, by the trigger the reference evaluator observed in this very run; the plain
            // generated family produces none of the triggers, so there every problem is reported as is
            let attributable = family != "generated";
            let sig = if family == "higher-order-dispatch-templates" { "C01:return-type-dispatch-keyed-by-callable-type".to_string() }
                else if kind == "value-outside-inferred-type" && what.contains('μ') { "C01:inferred-type-with-escaped-cycle".to_string() }
                else if attributable && jd.events.contains(&"partial_parameter_with_a_field_at_another_index") { "C01:field-of-partial-typed-value-read-at-the-partial-types-index".to_string() }
                else if attributable && jd.events.contains(&"tail_call_argument_outside_parameter_type") { "C01:tail-call-argument-unchecked".to_string() }
                else if attributable && jd.events.contains(&"nil_bound_by_bare_binder") { "C01:variable-bound-to-nil-by-bare-binder-is-typed-non-nil".to_string() }
                else if attributable && jd.events.contains(&"generic_function_applied") { "C01:generic-instantiation-unsound".to_string() }
                else if attributable && jd.events.contains(&"failed_match_then_more_terms_in_chain") { "C01:failed-mid-chain-match-keeps-its-narrowing".to_string() }
                else { format!("C01:{}:{}:{}", kind, family, cv_hash(&src)) };
            rep.violation(Violation { signature: sig, what: format!("{} ({} program)", what, family), witness: json!({"family": family, "program": src, "problem": kind, "detail": what, "trigger_events": jd.events, "index": j}) });
        }
    });
}

pub const RULE: &str = "for every program of the workload that the real compiler accepts: (1) no process of the run ends in a VM-level type failure, (2) a produced value inhabits the compiler's inferred result type, (3) the independent reference evaluator meets no dynamic type error when executing it";
pub const ASSUME: &[&str] = &["runs are capped (4000 scheduler actions x 1000 instructions); a program that does not finish is inconclusive", "monitor (3) only sees the type errors an execution actually reaches", "value-domain errors of partial builtins and I/O errors are allowed outcomes"];
pub const SITUATIONS: &[&str] = &["corpus_accepted_and_run", "mutated_accepted_and_run", "generated_accepted_and_run", "generated-ill-mutated_accepted_and_run", "generated-ill-mutated_rejected_by_compiler", "process-scenarios_accepted_and_run", "produced_a_value_checked_against_inferred_type"];
