//! C02 — the compiled program computes the value docs/spec.md defines (reference evaluator `refsem` is the oracle).
//!
//! Workload families:
//!   corpus     every program literal of the repository's tests and docs that the reference evaluator covers
//!   mutated    corpus programs with literals / branch order / match literals perturbed (kept when they still compile)
//!   generated  a typed generator aimed at the compiler's stack and locals bookkeeping: partially failing patterns in the
//!              middle of chains, bindings made in branches that then fall through, multi-step consequences, `~` at depth,
//!              spreads, closures, `$`, tail calls out of nested blocks, string holes
//! Oracle: normalised compiled value == normalised reference value, and error-vs-value agreement.  A program outside the
//! reference evaluator (Unsupported), over its budget, or over the compiled step cap is inconclusive, never a violation.
use crate::qv::{self, RunOutcome};
use crate::refsem::{self, Outcome};
use crate::report::{Report, Violation};
use crate::rng::Rng;
use serde_json::json;
use std::collections::HashMap;

#[derive(Clone, Debug, PartialEq)]
pub enum Ty { Int, Bin, Str, Tup(Option<String>, Vec<(Option<String>, Ty)>), Union(Vec<Ty>), Fn(Box<Ty>, Box<Ty>) }

impl Ty {
    pub fn nil() -> Ty { Ty::Tup(None, vec![]) }
    pub fn ok() -> Ty { Ty::Tup(Some("Ok".into()), vec![]) }
    pub fn is_nil(&self) -> bool { matches!(self, Ty::Tup(None, f) if f.is_empty()) }
    pub fn variants(&self) -> Vec<Ty> { match self { Ty::Union(v) => v.iter().flat_map(|t| t.variants()).collect(), t => vec![t.clone()] } }
    pub fn union(ts: Vec<Ty>) -> Ty { let mut out: Vec<Ty> = vec![]; for t in ts.into_iter().flat_map(|t| t.variants()) { if !out.contains(&t) { out.push(t); } } if out.len() == 1 { out.pop().unwrap() } else { Ty::Union(out) } }
    pub fn may_be_nil(&self) -> bool { self.variants().iter().any(|v| v.is_nil()) }
    pub fn has_fn(&self) -> bool { match self { Ty::Fn(..) => true, Ty::Tup(_, f) => f.iter().any(|(_, t)| t.has_fn()), Ty::Union(v) => v.iter().any(|t| t.has_fn()), _ => false } }
    pub fn src(&self) -> String {
        match self {
            Ty::Int => "'int".into(), Ty::Bin => "'bin".into(), Ty::Str => "Str['bin]".into(),
            Ty::Tup(n, f) => format!("{}[{}]", n.clone().unwrap_or_default(), f.iter().map(|(l, t)| match l { Some(l) => format!("{}: {}", l, t.src()), None => t.src() }).collect::<Vec<_>>().join(", ")),
            Ty::Union(v) => format!("({})", v.iter().map(|t| t.src()).collect::<Vec<_>>().join(" | ")),
            Ty::Fn(a, r) => format!("(#{} -> {})", a.src(), r.src()),
        }
    }
}

#[derive(Clone)]
pub struct Cx { pub vars: Vec<(String, Ty)>, pub flow: Option<Ty>, pub param: Option<Ty>, pub in_fn: Option<Ty> }

impl Cx {
    fn with_flow(&self, t: Option<Ty>) -> Cx { let mut c = self.clone(); c.flow = t; c }
    fn bind(&mut self, n: &str, t: Ty) { self.vars.retain(|(m, _)| m != n); self.vars.push((n.to_string(), t)); }
}

pub struct Gen<'a> { pub rng: &'a mut Rng, pub fresh: usize, pub fuel: i64, pub feats: HashMap<&'static str, u64>, pub allow_nil_binds: bool, pub allow_partial_params: bool, pub rec_fns: Vec<String>, pub last_fn_recursive: bool }

const TAGS: &[&str] = &["A", "B", "P", "Q"];
const FIELDS: &[&str] = &["x", "y", "k"];

impl<'a> Gen<'a> {
    pub fn new(rng: &'a mut Rng, fuel: i64) -> Self { Gen { rng, fresh: 0, fuel, feats: HashMap::new(), allow_nil_binds: false, allow_partial_params: false, rec_fns: vec![], last_fn_recursive: false } }
    fn feat(&mut self, k: &'static str) { *self.feats.entry(k).or_insert(0) += 1; }
    fn name(&mut self) -> String { self.fresh += 1; format!("v{}", self.fresh) }
    fn low(&mut self, d: usize) -> bool { self.fuel -= 1; self.fuel <= 0 || d == 0 }

    pub fn random_ty(&mut self, d: usize) -> Ty {
        match self.rng.below(if d == 0 { 3 } else { 8 }) {
            0 => Ty::Int, 1 => Ty::Bin, 2 => Ty::Str,
            3 => Ty::Int,
            _ => {
                let n = self.rng.below(3) + if self.rng.chance(1, 5) { 0 } else { 1 };
                let name = if self.rng.chance(1, 2) { Some(self.rng.pick(TAGS).to_string()) } else { None };
                let named = self.rng.chance(1, 3);
                let mut fields = vec![];
                // labels usually in the canonical order, sometimes permuted (the same label then sits at different indices in
                // different tuple types — what a by-name access on a union has to cope with)
                let mut order: Vec<usize> = (0..3).collect(); if self.rng.chance(1, 3) { self.rng.shuffle(&mut order); }
                for i in 0..n.min(3) { let l = if named { Some(FIELDS[order[i]].to_string()) } else { None }; fields.push((l, self.random_ty(d - 1))); }
                if name.is_none() && fields.is_empty() { return Ty::Tup(Some("Z".into()), vec![]); }
                Ty::Tup(name, fields)
            }
        }
    }

    pub fn lit(&mut self, t: &Ty) -> String {
        match t {
            Ty::Int => match self.rng.below(8) { 0 => "0".into(), 1 => "1".into(), 2 => format!("-{}", self.rng.range(1, 9)), 3 => format!("{}", self.rng.range(100, 100000)), _ => format!("{}", self.rng.range(0, 9)) },
            Ty::Bin => match self.rng.below(4) { 0 => "0x".into(), _ => { let n = self.rng.range(1, 3); let mut s = "0x".to_string(); for _ in 0..n { s += &format!("{:02x}", self.rng.below(4)); } s } },
            Ty::Str => match self.rng.below(4) { 0 => "\"\"".into(), 1 => "\"a\"".into(), 2 => "\"ab\"".into(), _ => "\"b\\{\"".into() },
            Ty::Tup(n, f) => { let inner: Vec<String> = f.iter().map(|(l, t)| { let v = self.lit(t); match l { Some(l) => format!("{}: {}", l, v), None => v } }).collect(); format!("{}[{}]", n.clone().unwrap_or_default(), inner.join(", ")) }
            Ty::Union(v) => { let k = self.rng.below(v.len()); let t = v[k].clone(); self.lit(&t) }
            Ty::Fn(a, r) => { let body = self.lit(r); format!("#{} {{ {} }}", a.src(), body) }
        }
    }

    /// a chain producing exactly `t` (never nil unless `t` is nil)
    pub fn of(&mut self, t: &Ty, cx: &Cx, d: usize) -> String {
        if self.low(d) { return self.leaf(t, cx); }
        // candidate productions
        let roll = self.rng.below(100);
        match t {
            Ty::Int if roll < 30 => {
                let op = *self.rng.pick(&["__integer_add__", "__integer_subtract__", "__integer_multiply__", "__integer_add__"]);
                if self.rng.chance(1, 3) { if let Some(Ty::Int) = cx.flow { self.feat("ripple_in_argument"); let b = self.of(&Ty::Int, cx, d - 1); return format!("[~, {}] {}", b, op); } }
                if self.rng.chance(1, 4) { self.feat("chained_ripple"); let a = self.of(&Ty::Int, cx, d - 1); let inner = cx.with_flow(Some(Ty::Int)); let b = self.of(&Ty::Int, &inner, d - 1); return format!("{} [~, {}] {}", a, b, op); }
                let a = self.of(&Ty::Int, cx, d - 1); let b = self.of(&Ty::Int, cx, d - 1);
                format!("[{}, {}] {}", a, b, op)
            }
            Ty::Int if roll < 38 => { let a = self.of(&Ty::Bin, cx, d - 1); format!("{} __binary_length__", a) }
            Ty::Int if roll < 42 => { self.feat("partial_builtin"); let a = self.of(&Ty::Int, cx, d - 1); let b = self.of(&Ty::Int, cx, d - 1); format!("[{}, {}] __integer_divide__", a, b) }
            Ty::Bin if roll < 30 => { let a = self.of(&Ty::Bin, cx, d - 1); let b = self.of(&Ty::Bin, cx, d - 1); format!("[{}, {}] __binary_concat__", a, b) }
            Ty::Str if roll < 30 => {
                self.feat("string_hole");
                let hole = self.of(&Ty::Str, cx, d - 1);
                if hole.contains('"') && self.rng.chance(1, 2) { return self.leaf(t, cx); }
                format!("\"p{{{}}}q\"", hole)
            }
            Ty::Tup(n, f) if roll < 35 && !f.is_empty() => {
                // construct field by field; fields see the chain's flowing value
                let inner: Vec<String> = f.iter().map(|(l, ft)| { let v = self.of(ft, cx, d - 1); match l { Some(l) => format!("{}: {}", l, v), None => v } }).collect();
                format!("{}[{}]", n.clone().unwrap_or_default(), inner.join(", "))
            }
            Ty::Tup(n, f) if roll < 50 && f.len() >= 2 => {
                // spread: build a prefix tuple variable-free, then extend
                self.feat("spread");
                let k = f.len() - 1;
                let prefix = Ty::Tup(if self.rng.chance(1, 2) { n.clone() } else { Some("W".into()) }, f[..k].to_vec());
                let p = self.of(&prefix, cx, d - 1);
                let last = { let inner_cx = cx.with_flow(Some(prefix.clone())); let v = self.of(&f[k].1, &inner_cx, d - 1); match &f[k].0 { Some(l) => format!("{}: {}", l, v), None => v } };
                // `p N[..., last]` spreads the flowing value; unnamed result needs plain `[..., last]`
                format!("{} {}[..., {}]", p, n.clone().unwrap_or_default(), last)
            }
            _ if roll < 3 => {
                // a branch whose tuple pattern repeats a name (an equality requirement) in front of a branch for the same variant
                self.feat("repeated_name_branch_before_same_variant_branch");
                let (k1, k2) = (self.rng.range(0, 3), self.rng.range(0, 3));
                let pick = self.rng.range(0, 2);
                // (inside the block the flowing value is the scrutinee pair, not the surrounding one: no `~` in the arms)
                let inner = cx.with_flow(None);
                let x = self.of(t, &inner, d - 1); let y = self.of(t, &inner, d - 1); let z = self.of(t, &inner, d - 1);
                let (a, b, c) = (self.name(), self.name(), self.name());
                format!("[{} {{ | ={} => A[{}] | B[] }}, {}] {{ | =[A[{}], {}] => {} | =[A[{}], {}] => {} | {} }}", pick, pick.min(1), k1, k2, a, a, x, b, c, y, z)
            }
            _ if roll >= 59 && roll < 62 => {
                // a block whose only branch has a pattern that the field-less variants of its scrutinee cannot match (a star or a
                // partial on integer-or-tuple): it yields nil for those, and the block after it tells nil from the rest
                self.feat("field_pattern_only_branch_on_a_union_with_a_field_less_variant");
                let inner = cx.with_flow(None);
                let pick = self.rng.below(2);
                let less = if self.rng.chance(1, 2) { self.lit(&Ty::Int) } else { self.lit(&Ty::Bin) };
                let tag = if self.rng.chance(1, 2) { self.rng.pick(TAGS).to_string() } else { String::new() };
                let (a, b) = (self.lit(&Ty::Int), self.lit(&Ty::Bin));
                let tup = match self.rng.below(3) { 0 => format!("{}[x: {}, y: {}]", tag, a, b), 1 => format!("{}[y: {}]", tag, b), _ => format!("{}[{}, k: {}]", tag, b, a) };
                let pat = match self.rng.below(4) { 0 | 1 => "*".to_string(), 2 => format!("{}*", tag), _ => if tup.contains("y:") { "(y: _)".to_string() } else { "(k: _)".to_string() } };
                let junk = self.lit(&Ty::Int);
                let x = self.of(t, &inner, d - 1); let y = self.of(t, &inner, d - 1);
                format!("{} {{ | =1 => {} | {} }} {{ | ={} => {} }} {{ | =[] => {} | {} }}", pick, less, tup, pat, junk, x, y)
            }
            _ if roll < 62 => self.total_block(t, cx, d),
            _ if roll < 72 => {
                // { bindings, result }
                self.feat("sequence_block");
                let (body, _) = self.total_seq(t, cx, d - 1);
                format!("{{ {} }}", body)
            }
            _ if roll < 82 => {
                // call a function in scope returning t
                let cands: Vec<(String, Ty)> = cx.vars.iter().filter_map(|(n, ty)| match ty { Ty::Fn(a, r) if **r == *t && !self.rec_fns.contains(n) => Some((n.clone(), (**a).clone())), _ => None }).collect();
                if cands.is_empty() { return self.leaf(t, cx); }
                let (f, a) = cands[self.rng.below(cands.len())].clone();
                self.feat("call");
                if a.is_nil() { return if self.rng.chance(1, 2) { f } else { let junk = self.leaf(&Ty::Int, cx); format!("{} {}", junk, f) }; }
                let arg = self.of(&a, cx, d - 1);
                format!("{} {}", arg, f)
            }
            _ if roll < 86 => {
                // a match in the middle of a chain: whether or not it matches, the chain goes on (nil flows) and the next
                // term replaces the verdict; variables the pattern would bind are not used afterwards (unspecified on failure)
                self.feat("match_then_more_terms_in_same_chain");
                // the scrutinee mentions no variable: a variable (or a tuple / one-expression block around it) would be narrowed by
                // the pattern for the rest of the chain even when the match fails (recorded type hole)
                let empty = Cx { vars: vec![], flow: None, param: None, in_fn: None };
                let (scrut, st) = self.any(&empty, d - 1);
                let mut b = vec![];
                let p = self.pattern(&st, cx, 2, &mut b);
                let mut inner = cx.with_flow(None);
                // names the pattern (re)binds — explicitly or through a star — are nil-filled when it fails: not used afterwards
                inner.vars.retain(|(n, _)| !b.iter().any(|(bn, _)| bn == n) && !FIELDS.contains(&n.as_str()));
                let v = self.of(t, &inner, d - 1);
                if v.starts_with('{') || v.starts_with('~') || v.starts_with("[...") || v.starts_with('$') { return self.leaf(t, cx); }
                // a variable scrutinee would be narrowed by the pattern for the rest of the chain even when the match fails
                // (recorded type hole; a one-expression block keeps the variable's provenance too): scrutinise a literal instead
                let scrut = if scrut.chars().all(|c| c.is_alphanumeric() || c == '_' || c == '.' || c == '$' || c == '~') || scrut.starts_with('{') { self.lit(&st) } else { scrut };
                format!("{} ={} {}", scrut, p, v)
            }
            _ if roll < 92 => {
                // thread: some other value, then replace it (chains are infallible pipes: nil flows)
                self.feat("value_replaced_mid_chain");
                let (junk, jt) = self.any(cx, d - 1);
                let inner = cx.with_flow(Some(jt));
                let v = self.of(t, &inner, d - 1);
                // a term that would consume the flowing value instead of replacing it cannot follow the junk: start over in the
                // original context (never reuse `v`, which was generated for a different flowing value)
                if v.starts_with('{') || v.starts_with('~') || v.starts_with("[...") { return self.leaf(t, cx); }
                format!("{} {}", junk, v)
            }
            _ => self.leaf(t, cx),
        }
    }

    fn leaf(&mut self, t: &Ty, cx: &Cx) -> String {
        let mut opts: Vec<String> = vec![];
        for (n, ty) in &cx.vars {
            if ty == t { opts.push(if matches!(ty, Ty::Fn(..)) { format!("&{}", n) } else { n.clone() }); }
            // a nilary function named as a term (also as a tuple / spread field) is called
            if let Ty::Fn(a, r) = ty { if a.is_nil() && **r == *t && !self.rec_fns.contains(n) { opts.push(n.clone()); opts.push(n.clone()); } }
            // by-name access on a union of tuples that all carry the label at the wanted type (accepted by the compiler only when the
            // label sits at the same index everywhere; rejected programs are discarded)
            if let Ty::Union(vs) = ty { if let Some(Ty::Tup(_, f0)) = vs.first() { for (l, ft) in f0 { if let Some(l) = l { if ft == t && !ft.has_fn() && vs.iter().all(|v| matches!(v, Ty::Tup(_, fs) if fs.iter().any(|(ol, ot)| ol.as_deref() == Some(l.as_str()) && ot == t))) { opts.push(format!("{}.{}", n, l)); opts.push(format!("{}.{}", n, l)); } } } } }
            if let Ty::Tup(_, fs) = ty { for (i, (l, ft)) in fs.iter().enumerate() { if ft == t && !matches!(ft, Ty::Fn(..)) { opts.push(match l { Some(l) => format!("{}.{}", n, l), None => format!("{}.{}", n, i) }); } } }
        }
        if cx.flow.as_ref() == Some(t) && !matches!(t, Ty::Fn(..)) { opts.push("~".into()); }
        if let Some(p) = &cx.param { if p == t && !matches!(t, Ty::Fn(..)) { opts.push("$".into()); } if let Ty::Tup(_, fs) = p { for (i, (l, ft)) in fs.iter().enumerate() { if ft == t && !matches!(ft, Ty::Fn(..)) { opts.push(match l { Some(l) => if self.rng.chance(1, 2) { format!("${}", l) } else { format!("$.{}", l) }, None => if self.rng.chance(1, 2) { format!("${}", i) } else { format!("$.{}", i) } }); } } } }
        if !opts.is_empty() && self.rng.chance(3, 4) { let k = self.rng.below(opts.len()); return opts.swap_remove(k); }
        self.lit(t)
    }

    /// any chain with its type (total: nil only when the type says so)
    pub fn any(&mut self, cx: &Cx, d: usize) -> (String, Ty) {
        if !self.low(d) && self.rng.chance(1, 4) {
            // a block whose branches have different types
            let (s, t) = self.union_block(cx, d);
            return (s, t);
        }
        if self.rng.chance(1, 3) { let usable: Vec<(String, Ty)> = cx.vars.iter().filter(|(_, t)| !t.has_fn()).cloned().collect(); if !usable.is_empty() { let k = self.rng.below(usable.len()); return usable[k].clone(); } }
        let t = self.random_ty(2);
        let s = self.of(&t, cx, d.saturating_sub(1));
        (s, t)
    }

    /// steps `a = e, b = e, result` that never short-circuit
    fn total_seq(&mut self, t: &Ty, cx: &Cx, d: usize) -> (String, Cx) {
        let mut cx = cx.clone();
        let mut steps = vec![];
        let n = self.rng.below(3);
        for _ in 0..n {
            if self.fuel <= 0 { break; }
            self.fuel -= 2;
            let (e, et) = self.any(&cx, d);
            if et.may_be_nil() && !self.allow_nil_binds { continue; }
            // a binding step whose pattern pins a variable in scope (inside a function body: a variable the closure must capture);
            // the pinned position holds that very variable, so the step always succeeds
            let pinnable: Vec<String> = cx.vars.iter().filter(|(n, t)| !t.has_fn() && !FIELDS.contains(&n.as_str())).map(|(n, _)| n.clone()).collect();
            if !pinnable.is_empty() && self.rng.chance(1, 10) {
                self.feat("pin_in_a_binding_step_pattern");
                let u = pinnable[self.rng.below(pinnable.len())].clone(); let a = self.name();
                let first = self.rng.chance(1, 2);
                let wild = self.rng.chance(1, 4);
                let pin = if wild { "_".to_string() } else { format!("&{}", u) };
                steps.push(if first { format!("[{}, {}] = [{}, {}]", a, pin, e, u) } else { format!("A[{}, {}] = A[{}, {}]", pin, a, u, e) });
                cx.bind(&a, et.clone()); cx.flow = Some(Ty::ok());
                // the pattern has one binder, at a path: a test on a field of what it bound says nothing about the variable that sits
                // next to it in the matched tuple — which is read again straight afterwards
                if let Ty::Tup(_, fs) = &et { if !fs.is_empty() && !fs[0].1.has_fn() && !fs[0].1.may_be_nil() && self.rng.chance(2, 3) {
                    self.feat("field_test_on_the_only_binder_of_a_destructuring");
                    let (f, g) = (self.name(), self.name());
                    let acc = match &fs[0].0 { Some(l) if self.rng.chance(1, 2) => l.clone(), _ => "0".to_string() };
                    steps.push(format!("{}.{} ={}", a, acc, f)); cx.bind(&f, fs[0].1.clone());
                    let ut = cx.vars.iter().find(|(n, _)| *n == u).map(|(_, t)| t.clone()).unwrap();
                    if !ut.may_be_nil() || self.allow_nil_binds { steps.push(format!("{} = {}", g, u)); cx.bind(&g, ut); }
                } }
                continue;
            }
            match self.rng.below(4) {
                0 if !et.may_be_nil() => { self.feat("bare_step"); steps.push(e); cx.flow = Some(et); }
                1 => { // in-chain bind
                    let v = self.name(); steps.push(format!("{} ={}", e, v)); cx.bind(&v, et); cx.flow = Some(Ty::ok()); self.feat("in_chain_bind"); }
                2 => { // destructuring bind that always succeeds
                    if let Ty::Tup(n, fs) = &et { if !fs.is_empty() { let mut names = vec![]; let pat: Vec<String> = fs.iter().map(|(l, ft)| { let v = self.name(); names.push((v.clone(), ft.clone())); match l { Some(l) => format!("{}: {}", l, v), None => v } }).collect(); steps.push(format!("{}[{}] = {}", n.clone().unwrap_or_default(), pat.join(", "), e)); for (v, ft) in names { cx.bind(&v, ft); } cx.flow = Some(Ty::ok()); self.feat("destructuring_bind"); continue; } }
                    let v = self.name(); steps.push(format!("{} = {}", v, e)); cx.bind(&v, et); cx.flow = Some(Ty::ok());
                }
                _ => {
                    // sometimes under the name of a variable already in scope (shadowing, also of variables a closure captured)
                    let shadowable: Vec<String> = cx.vars.iter().filter(|(n, t)| !t.has_fn() && !FIELDS.contains(&n.as_str())).map(|(n, _)| n.clone()).collect();
                    let v = if !shadowable.is_empty() && self.rng.chance(1, 6) { self.feat("shadowing_binding"); shadowable[self.rng.below(shadowable.len())].clone() } else { self.name() };
                    steps.push(format!("{} = {}", v, e)); cx.bind(&v, et); cx.flow = Some(Ty::ok());
                }
            }
        }
        let last = self.of(t, &cx, d);
        steps.push(last);
        (steps.join(", "), cx)
    }

    // ---- patterns

    /// a pattern against scrutinee type `s`; returns source, bindings with types, and whether it can match at all
    fn pattern(&mut self, s: &Ty, cx: &Cx, d: usize, binds: &mut Vec<(String, Ty)>) -> String {
        let vs = s.variants();
        let v = vs[self.rng.below(vs.len())].clone();
        let roll = self.rng.below(100);
        if roll < 8 { return "_".into(); }
        if roll < 20 || matches!(v, Ty::Fn(..)) { if s.may_be_nil() && !self.allow_nil_binds { return "_".into(); } let n = self.name(); binds.push((n.clone(), s.clone())); return n; }
        if roll < 33 && !s.has_fn() { if let Ty::Tup(tn, fs) = &v { if !fs.is_empty() && self.rng.chance(1, 5) {
            // a type that differs from the variant only in its labels: never matches
            let all_named = fs.iter().all(|(l, _)| l.is_some());
            let relabelled: Vec<(Option<String>, Ty)> = if all_named { fs.iter().map(|(_, t)| (None, t.clone())).collect() } else { fs.iter().enumerate().map(|(i, (_, t))| (Some(FIELDS[i % 3].to_string()), t.clone())).collect() };
            let rt = Ty::Tup(tn.clone(), relabelled);
            if !vs.contains(&rt) {
                self.feat("type_pattern_differing_only_in_labels");
                if roll < 28 { let n = self.name(); binds.push((n.clone(), rt.clone())); return format!("({}){}", rt.src(), n); }
                return rt.src();
            }
        } } }
        if roll < 28 && !s.has_fn() { self.feat("type_ascription_pattern"); let n = self.name(); binds.push((n.clone(), v.clone())); return format!("({}){}", v.src(), n); }
        if roll < 33 && !s.has_fn() { self.feat("type_pattern"); return v.src(); }
        if roll < 40 {
            // pin an existing variable of a variant type
            let c: Vec<String> = cx.vars.iter().filter(|(_, t)| vs.contains(t) && !t.has_fn()).map(|(n, _)| n.clone()).collect();
            if !c.is_empty() { self.feat("pin"); return format!("&{}", c[self.rng.below(c.len())]); }
        }
        if roll < 46 && vs.len() == 1 && matches!(v, Ty::Int | Ty::Bin) { self.feat("alternation"); let a = self.lit(&v); let b = self.lit(&v); return format!("({} | {})", a, b); }
        match &v {
            Ty::Int | Ty::Bin | Ty::Str => self.lit(&v),
            Ty::Tup(n, fs) => {
                let named = !fs.is_empty() && fs.iter().all(|(l, _)| l.is_some());
                if named && d > 0 && self.rng.chance(1, 4) {
                    self.feat("partial_pattern");
                    let k = self.rng.below(fs.len());
                    let (l, ft) = (&fs[k].0.clone().unwrap(), fs[k].1.clone());
                    let nm = if self.rng.chance(1, 2) { n.clone().unwrap_or_default() } else { String::new() };
                    // other variants with a same-named field of another type would widen the binding: only bind through a sub-pattern typed by this variant when unambiguous
                    let same: Vec<Ty> = vs.iter().filter_map(|o| match o { Ty::Tup(on, ofs) if nm.is_empty() || on == n => ofs.iter().find(|(ol, _)| ol.as_deref() == Some(l.as_str())).map(|(_, t)| t.clone()), _ => None }).collect();
                    let ft_all = Ty::union(same);
                    if self.rng.chance(1, 2) { binds.push((l.clone(), ft_all)); return format!("{}({})", nm, l); }
                    let sub = self.pattern(&ft_all, cx, d - 1, binds);
                    let _ = ft;
                    return format!("{}({}: {})", nm, l, sub);
                }
                if named && self.rng.chance(1, 6) && !fs.iter().any(|(l, _)| cx.vars.iter().any(|(n, t)| Some(n) == l.as_ref() && matches!(t, Ty::Fn(..)))) {
                    self.feat("star_pattern");
                    let nm = if self.rng.chance(1, 2) { n.clone().unwrap_or_default() } else { String::new() };
                    for (l, _) in fs { let l = l.clone().unwrap(); let all: Vec<Ty> = vs.iter().filter_map(|o| match o { Ty::Tup(on, ofs) if nm.is_empty() || on == n => ofs.iter().find(|(ol, _)| ol.as_deref() == Some(l.as_str())).map(|(_, t)| t.clone()), _ => None }).collect(); binds.push((l, Ty::union(all))); }
                    // star binds every named field of whichever variant matches: on a single-variant scrutinee the binding set is known;
                    // on a union the names differ per variant, so nothing it binds is offered to later code (but the slots it
                    // allocates must still line up for everything that follows)
                    if vs.len() == 1 { return format!("{}*", nm); } else { for _ in 0..fs.len() { binds.pop(); } if self.rng.chance(1, 2) {
                        self.feat("star_pattern_on_a_union");
                        // whatever x / y / k meant before is now in doubt (bound by some variants only): take the names out of play
                        for l in FIELDS { binds.push((l.to_string(), Ty::Fn(Box::new(Ty::Int), Box::new(Ty::Tup(Some("Unusable".into()), vec![]))))); if !self.rec_fns.contains(&l.to_string()) { self.rec_fns.push(l.to_string()); } }
                        return format!("{}*", nm);
                    } }
                }
                // full tuple pattern: sub-patterns typed by the union of same-shaped variants
                let shape_eq = |o: &Ty| matches!(o, Ty::Tup(on, ofs) if on == n && ofs.len() == fs.len() && ofs.iter().zip(fs.iter()).all(|(a, b)| a.0 == b.0));
                let same_shape: Vec<&Ty> = vs.iter().filter(|o| shape_eq(o)).collect();
                let mut parts = vec![];
                for (i, (l, _)) in fs.iter().enumerate() {
                    let ft = Ty::union(same_shape.iter().map(|o| match o { Ty::Tup(_, ofs) => ofs[i].1.clone(), _ => unreachable!() }).collect());
                    // a name already bound in this pattern, at the same type: an equality requirement between the two positions
                    let again: Vec<String> = binds.iter().filter(|(_, bt)| *bt == ft && !matches!(bt, Ty::Union(_)) && !bt.has_fn()).map(|(n, _)| n.clone()).collect();
                    let sub = if !again.is_empty() && self.rng.chance(1, 5) { self.feat("repeated_binder"); again[self.rng.below(again.len())].clone() }
                        else if d == 0 { let nn = self.name(); binds.push((nn.clone(), ft)); nn } else { self.pattern(&ft, cx, d - 1, binds) };
                    parts.push(match l { Some(l) => format!("{}: {}", l, sub), None => sub });
                }
                format!("{}[{}]", n.clone().unwrap_or_default(), parts.join(", "))
            }
            _ => "_".into(),
        }
    }

    /// a condition: sequence that may evaluate to nil, with the bindings it leaves in scope
    fn condition(&mut self, cx: &Cx, d: usize) -> (String, Cx) {
        let mut cx2 = cx.clone();
        let mut steps: Vec<String> = vec![];
        let n = if self.fuel <= 0 { 1 } else { 1 + self.rng.below(2) };
        for i in 0..n {
            self.fuel -= 1;
            let flow = cx2.flow.clone();
            // a pattern that binds a name (through a star) and pins the variable of the same name already in scope
            let outer: Vec<(String, Ty)> = cx2.vars.iter().filter(|(n, t)| FIELDS.contains(&n.as_str()) && !t.has_fn() && !matches!(t, Ty::Union(_))).cloned().collect();
            if !outer.is_empty() && self.rng.chance(1, 4) {
                self.feat("pin_of_a_name_the_pattern_rebinds");
                let (on, ot) = outer[self.rng.below(outer.len())].clone();
                let t1 = self.random_ty(1);
                let inner_v = self.lit(&t1);
                let other = if self.rng.chance(1, 2) { on.clone() } else { self.of(&ot, &cx2, 1) };
                steps.push(format!("[A[{}: {}], {}] =[A*, &{}]", on, inner_v, other, on));
                cx2.bind(&on, t1);
                cx2.flow = Some(Ty::ok());
                continue;
            }
            match (self.rng.below(5), flow) {
                (0..=2, Some(ft)) if i == 0 || !matches!(cx2.flow, Some(ref o) if *o == Ty::ok()) => {
                    // in-chain match on the flowing value
                    let mut b = vec![];
                    let p = self.pattern(&ft, &cx2, 2, &mut b);
                    steps.push(format!("={}", p));
                    for (nme, t) in b { cx2.bind(&nme, t); }
                    cx2.flow = Some(Ty::ok());
                    self.feat("match_on_flowing_value");
                }
                (3, _) => {
                    // match a computed value mid-chain: `e =pat`
                    let (e, et) = self.any(&cx2, d);
                    let mut b = vec![];
                    let p = self.pattern(&et, &cx2, 2, &mut b);
                    // ... or the same as a binding step, `pat = e` (inside a function a name the pattern pins may be mentioned nowhere else)
                    if self.rng.chance(1, 3) && !e.contains('~') { self.feat("binding_step_as_condition"); steps.push(format!("{} = {}", p, e)); } else { steps.push(format!("{} ={}", e, p)); }
                    for (nme, t) in b { cx2.bind(&nme, t); }
                    cx2.flow = Some(Ty::ok());
                    self.feat("mid_chain_match");
                }
                _ => {
                    // integer guard
                    let a = self.of(&Ty::Int, &cx2, d); let b = self.lit(&Ty::Int);
                    let lit = *self.rng.pick(&["-1", "0", "1"]);
                    steps.push(format!("[{}, {}] __integer_compare__ ={}", a, b, lit));
                    cx2.flow = Some(Ty::ok());
                    self.feat("integer_guard");
                }
            }
        }
        (steps.join(", "), cx2)
    }

    /// `{ | cond => cons | seq | default }` where every arm yields `t` and the last arm always succeeds
    fn total_block(&mut self, t: &Ty, cx: &Cx, d: usize) -> String {
        let (scrut, st) = self.any(cx, d - 1);
        let inner = cx.with_flow(Some(st));
        let blk = self.arms_block(t, &inner, d);
        format!("{} {}", scrut, blk)
    }

    fn arms_block(&mut self, t: &Ty, inner: &Cx, d: usize) -> String {
        self.feat("total_block");
        let d = d.max(1);
        let mut arms = vec![];
        let n = if self.fuel <= 0 { 1 } else { 1 + self.rng.below(3) };
        for _ in 0..n {
            let (cond, ccx) = self.condition(inner, d - 1);
            if self.rng.chance(2, 3) {
                // consequence restarts from the block parameter
                let mut c2 = ccx.clone(); c2.flow = inner.flow.clone();
                let (cons, _) = self.total_seq(t, &c2, d - 1);
                if cons.contains(", ") { self.feat("multi_step_consequence"); }
                arms.push(format!("{} => {}", cond, cons));
            } else {
                // plain branch: condition steps then the value; falls through when a step is nil
                self.feat("fallible_branch_sequence");
                let (tail, _) = self.total_seq(t, &ccx, d - 1);
                arms.push(format!("{}, {}", cond, tail));
            }
        }
        let (dflt, _) = self.total_seq(t, inner, d - 1);
        arms.push(dflt);
        let lead = if self.rng.chance(1, 2) { "| " } else { "" };
        format!("{{ {}{} }}", lead, arms.join(" | "))
    }

    fn union_block(&mut self, cx: &Cx, d: usize) -> (String, Ty) {
        self.feat("union_block");
        let (scrut, st) = self.any(cx, d - 1);
        let inner = cx.with_flow(Some(st));
        let mut arms = vec![]; let mut tys = vec![];
        let n = if self.fuel <= 0 { 1 } else { 1 + self.rng.below(3) };
        for _ in 0..n {
            let (cond, ccx) = self.condition(&inner, d - 1);
            let t = self.random_ty(1);
            let mut c2 = ccx.clone(); c2.flow = inner.flow.clone();
            let (cons, _) = self.total_seq(&t, &c2, d - 1);
            arms.push(format!("{} => {}", cond, cons)); tys.push(t);
        }
        if self.rng.chance(2, 3) { let t = self.random_ty(1); let (dflt, _) = self.total_seq(&t, &inner, d - 1); arms.push(dflt); tys.push(t); } else { tys.push(Ty::nil()); self.feat("non_total_block"); }
        (format!("{} {{ | {} }}", scrut, arms.join(" | ")), Ty::union(tys))
    }

    // ---- functions

    /// a function with a partial parameter that hands its own (partial-typed) parameter on to another such function
    fn partial_forwarding(&mut self, steps: &mut Vec<String>, cx: &mut Cx) {
        self.feat("partial_typed_value_forwarded_to_a_partial_parameter");
        let l = *self.rng.pick(FIELDS);
        let (narrow, other) = if self.rng.chance(1, 2) { (Ty::Int, Ty::Bin) } else { (Ty::Bin, Ty::Int) };
        // outer's field type is either the same as inner's (accepted) or wider (must be rejected)
        let wider = self.rng.chance(1, 2);
        let outer_ft = if wider { Ty::union(vec![narrow.clone(), other.clone()]) } else { narrow.clone() };
        let (fi, fo, r) = (self.name(), self.name(), self.name());
        let use_expr = match narrow { Ty::Int => format!("[${}, 1] __integer_add__", l), _ => format!("${} __binary_length__", l) };
        steps.push(format!("{} = #({}: {}) {{ {} }}", fi, l, narrow.src(), use_expr));
        steps.push(format!("{} = #({}: {}) {{ {} {} }}", fo, l, outer_ft.src(), if self.rng.chance(1, 2) { "$" } else { "~" }, fi));
        let arg_t = if wider && self.rng.chance(1, 2) { other } else { narrow };
        let arg = self.lit(&arg_t);
        steps.push(format!("{} = P[{}: {}] {}", r, l, arg, fo));
        cx.bind(&r, Ty::Int); cx.flow = Some(Ty::ok());
    }

    fn function(&mut self, cx: &Cx, d: usize) -> (String, Ty) {
        let closure_cx = Cx { vars: cx.vars.clone(), flow: None, param: None, in_fn: None };
        match self.rng.below(6) {
            0 => {
                // counting tail recursion with an accumulator, the tail call issued from a nested block
                self.feat("fn_tail_recursive"); self.last_fn_recursive = true;
                let acc = self.random_ty(1);
                let mut c = closure_cx.clone(); c.bind("n", Ty::Int); c.bind("acc", acc.clone());
                c.param = Some(Ty::Tup(None, vec![(None, Ty::Int), (None, acc.clone())])); c.flow = c.param.clone();
                let step = self.of(&acc, &c, d);
                let nest = match self.rng.below(3) { 0 => format!("[[n, 1] __integer_subtract__, {}] ^", step), 1 => { self.feat("tail_call_from_nested_block"); format!("{{ w = {}, {{ [[n, 1] __integer_subtract__, w] ^ }} }}", step) } _ => { self.feat("tail_call_after_failed_branch"); format!("{{ | n =-1 => acc | w = {}, [[n, 1] __integer_subtract__, w] ^ }}", step) } };
                (format!("#['int, {}] {{ | =[0, acc] => acc | =[n, acc] => {} }}", acc.src(), nest), Ty::Fn(Box::new(Ty::Tup(None, vec![(None, Ty::Int), (None, acc.clone())])), Box::new(acc)))
            }
            1 => {
                // nilary
                self.feat("fn_nilary");
                let r = self.random_ty(1);
                let body = self.of(&r, &closure_cx, d);
                (format!("#{{ {} }}", body), Ty::Fn(Box::new(Ty::nil()), Box::new(r)))
            }
            2 => {
                // named tail call to an earlier function
                let c: Vec<(String, Ty, Ty)> = cx.vars.iter().filter_map(|(n, t)| match t { Ty::Fn(a, r) if !a.is_nil() && !self.rec_fns.contains(n) => Some((n.clone(), (**a).clone(), (**r).clone())), _ => None }).collect();
                if c.is_empty() { return self.function_plain(&closure_cx, d); }
                self.feat("fn_named_tail_call");
                let (g, a, r) = c[self.rng.below(c.len())].clone();
                let p = self.random_ty(1);
                let mut c2 = closure_cx.clone(); c2.param = Some(p.clone()); c2.flow = Some(p.clone());
                let arg = self.of(&a, &c2, d);
                (format!("#{} {{ {} ^{} }}", p.src(), arg, g), Ty::Fn(Box::new(p), Box::new(r)))
            }
            _ => self.function_plain(&closure_cx, d),
        }
    }

    fn function_plain(&mut self, closure_cx: &Cx, d: usize) -> (String, Ty) {
        self.feat("fn_plain");
        let p = if self.rng.chance(1, 4) { let a = self.random_ty(1); let b = self.random_ty(1); Ty::union(vec![a, b]) } else { self.random_ty(2) };
        let r = self.random_ty(1);
        // a tuple parameter with labelled fields may be declared as a partial type naming only some of them (in the tuple's
        // order); the body then reaches the fields by name while callers pass the whole tuple
        if let Ty::Tup(pn, pf) = &p { if self.allow_partial_params && pf.len() >= 2 && pf.iter().all(|(l, _)| l.is_some()) && self.rng.chance(1, 2) {
            self.feat("fn_partial_parameter_type");
            let keep: Vec<(Option<String>, Ty)> = pf.iter().enumerate().filter(|(i, _)| *i > 0 || self.rng.chance(1, 3)).map(|(_, f)| f.clone()).collect();
            let keep = if keep.is_empty() { vec![pf[pf.len() - 1].clone()] } else { keep };
            let named = self.rng.chance(1, 2) && pn.is_some();
            let decl = format!("{}({})", if named { pn.clone().unwrap() } else { String::new() }, keep.iter().map(|(l, t)| format!("{}: {}", l.clone().unwrap(), t.src())).collect::<Vec<_>>().join(", "));
            let mut c = closure_cx.clone(); c.param = Some(Ty::Tup(None, keep.clone())); c.flow = None;
            let mut parts = vec![]; for (l, t) in &keep { if self.rng.chance(2, 3) { parts.push((format!("${}", l.clone().unwrap()), t.clone())); } }
            // the body: a tuple of some of the named fields plus a generated value
            let extra = self.of(&r, &c, d);
            let body = format!("[{}]", parts.iter().map(|(e, _)| e.clone()).chain(std::iter::once(extra)).collect::<Vec<_>>().join(", "));
            let rt = Ty::Tup(None, parts.iter().map(|(_, t)| (None, t.clone())).chain(std::iter::once((None, r.clone()))).collect());
            return (format!("#{} {{ {} }}", decl, body), Ty::Fn(Box::new(p.clone()), Box::new(rt)));
        } }
        let mut c = closure_cx.clone(); c.param = Some(p.clone()); c.flow = Some(p.clone());
        if closure_cx.vars.iter().any(|(_, t)| !matches!(t, Ty::Fn(..))) { self.feat("closure_captures_in_scope"); }
        let body = if self.rng.chance(1, 2) { let b = self.arms_block(&r, &c, d); b[1..b.len() - 1].trim().to_string() } else { self.total_seq(&r, &c, d).0 };
        (format!("#{} {{ {} }}", p.src(), body), Ty::Fn(Box::new(p), Box::new(r)))
    }

    pub fn program(&mut self) -> String {
        let mut cx = Cx { vars: vec![], flow: None, param: None, in_fn: None };
        let mut steps: Vec<String> = vec![];
        let n = 1 + self.rng.below(4);
        for _ in 0..n {
            if self.rng.chance(1, 10) {
                let plain: Vec<(String, Ty)> = cx.vars.iter().filter(|(_, t)| !t.has_fn()).cloned().collect();
                if !plain.is_empty() {
                    // `a = u, b = ~`: the second step binds the Ok the first one evaluates to
                    self.feat("bind_of_the_ok_threaded_out_of_a_binding");
                    let (u, ut) = plain[self.rng.below(plain.len())].clone();
                    let (a, b) = (self.name(), self.name());
                    steps.push(format!("{} = {}", a, u)); steps.push(format!("{} = ~", b));
                    cx.bind(&a, ut); cx.bind(&b, Ty::ok()); cx.flow = Some(Ty::ok());
                    // and the aliased variable is used again inside a block, where a narrowing of it would show
                    let t = self.random_ty(1); let w = self.name(); let c = self.name();
                    let tail = self.of(&t, &cx, 1);
                    steps.push(format!("{} = {{ {} = {}, {} }}", w, c, u, tail)); cx.bind(&w, t);
                    continue;
                }
            }
            if self.rng.chance(1, 12) {
                let plain: Vec<(String, Ty)> = cx.vars.iter().filter(|(n, t)| !t.has_fn() && !FIELDS.contains(&n.as_str())).cloned().collect();
                if !plain.is_empty() {
                    // a binder inside a tuple field of a branchless block, under the name of an outer variable: the block is a scope,
                    // so the outer variable is untouched (it is part of the final tuple)
                    self.feat("binder_in_a_tuple_field_of_a_branchless_block_shadowing_an_outer_name");
                    let (u, _) = plain[self.rng.below(plain.len())].clone();
                    let t = self.random_ty(1); let l = self.lit(&t); let w = self.name();
                    let shape = match self.rng.below(3) { 0 => format!("{} {{ [~ ={}, 1] }}", l, u), 1 => format!("{} {{ [{} ={}, ~] }}", l, l, u), _ => format!("{{ A[x: {} ={}] }}", l, u) };
                    steps.push(format!("{} = {}", w, shape));
                    let wt = match shape.starts_with('{') { true => Ty::Tup(Some("A".into()), vec![(Some("x".into()), Ty::ok())]), false => if shape.contains("[~ =") { Ty::Tup(None, vec![(None, Ty::ok()), (None, Ty::Int)]) } else { Ty::Tup(None, vec![(None, Ty::ok()), (None, t.clone())]) } };
                    cx.bind(&w, wt); cx.flow = Some(Ty::ok());
                    continue;
                }
            }
            if self.rng.chance(1, 14) {
                // a tuple whose field is union-typed, then an unrelated tuple of the same shape with a narrower field, then the first again
                self.feat("same_shaped_tuples_with_wider_and_narrower_fields");
                let (t1, t2) = (Ty::Int, Ty::Bin);
                let (a, b, w, r) = (self.name(), self.name(), self.name(), self.name());
                let first_is_int = self.rng.chance(1, 2);
                let l1 = self.lit(&t1); let l2 = self.lit(&t2); let third_is_int = self.rng.chance(1, 2); let l3 = self.lit(if third_is_int { &t1 } else { &t2 });
                steps.push(format!("{} = [{{ | 1 ={} => {} | {} }}]", a, if first_is_int { 1 } else { 2 }, l1, l2));
                steps.push(format!("{} = [{}]", b, l3));
                steps.push(format!("{} = {}.0 {{ | =('bin){} => 1 | 2 }}", r, a, w));
                cx.bind(&a, Ty::Tup(None, vec![(None, Ty::union(vec![t1.clone(), t2.clone()]))])); cx.bind(&b, Ty::Tup(None, vec![(None, Ty::union(vec![t1, t2]))])); cx.bind(&r, Ty::Int); cx.flow = Some(Ty::ok());
                continue;
            }
            if self.allow_partial_params && self.rng.chance(1, 5) { self.partial_forwarding(&mut steps, &mut cx); continue; }
            if self.rng.chance(1, 3) {
                self.last_fn_recursive = false;
                let (f, ft) = self.function(&cx, 2);
                let v = self.name(); if self.last_fn_recursive { self.rec_fns.push(v.clone()); } steps.push(format!("{} = {}", v, f)); cx.bind(&v, ft.clone()); cx.flow = Some(Ty::ok());
                if let Ty::Fn(a, r) = &ft { if self.rng.chance(3, 4) {
                    self.feat("function_called");
                    let arg = if a.is_nil() { String::new() } else if self.rec_fns.contains(&v) { if let Ty::Tup(_, fs) = &**a { let acc = self.of(&fs[1].1, &cx, 1); format!("[{}, {}]", self.rng.range(0, 10), acc) } else { String::new() } } else { let av = a.variants(); let pickv = av[self.rng.below(av.len())].clone(); self.of(&pickv, &cx, 2) };
                    let call = format!("{} {}", arg, v).trim().to_string();
                    let w = self.name();
                    if r.may_be_nil() && !self.allow_nil_binds { let t = self.random_ty(1); let inner = cx.with_flow(Some((**r).clone())); let blk = self.arms_block(&t, &inner, 2); steps.push(format!("{} = {} {}", w, call, blk)); cx.bind(&w, t); }
                    else { steps.push(format!("{} = {}", w, call)); cx.bind(&w, (**r).clone()); }
                } }
            } else {
                let (e, et) = self.any(&cx, 2);
                if et.may_be_nil() && !self.allow_nil_binds {
                    // use the possibly-nil value as a scrutinee straight away
                    let t = self.random_ty(1); let inner = cx.with_flow(Some(et.clone())); let blk = self.arms_block(&t, &inner, 2);
                    let v = self.name(); steps.push(format!("{} = {} {}", v, e, blk)); cx.bind(&v, t); cx.flow = Some(Ty::ok());
                } else if et.may_be_nil() && self.rng.chance(1, 2) {
                    // a possibly-nil top-level step short-circuits the whole program: keep it bound instead
                    let v = self.name(); steps.push(format!("{} = {}", v, e)); cx.bind(&v, et); cx.flow = Some(Ty::ok());
                } else if self.rng.chance(1, 5) { steps.push(e); cx.flow = Some(et); self.feat("bare_top_level_step"); }
                else { let v = self.name(); steps.push(format!("{} = {}", v, e)); cx.bind(&v, et); cx.flow = Some(Ty::ok()); }
            }
        }
        // final value: every non-function variable, so no intermediate is unobserved
        let mut finals: Vec<String> = cx.vars.iter().filter(|(_, t)| !t.has_fn()).map(|(n, _)| n.clone()).collect();
        let t = self.random_ty(1); let extra = self.of(&t, &cx, 2); finals.push(extra);
        steps.push(format!("[{}]", finals.join(", ")));
        let sep = if self.rng.chance(1, 4) { "\n" } else { ", " };
        steps.join(sep)
    }
}

// ---------------------------------------------------------------------- corpus mutation

/// perturb literals / branch order of a corpus program; result may not compile (then it is discarded)
pub fn mutate(src: &str, rng: &mut Rng) -> String {
    let b: Vec<char> = src.chars().collect();
    let mut out = String::new();
    let mut i = 0;
    let mut in_str = false;
    let pick = rng.below(4);
    while i < b.len() {
        let c = b[i];
        if c == '"' { in_str = !in_str; out.push(c); i += 1; continue; }
        if in_str { out.push(c); i += 1; continue; }
        if c.is_ascii_digit() && (i == 0 || !(b[i - 1].is_alphanumeric() || b[i - 1] == '_' || b[i - 1] == '.' || b[i - 1] == '$')) {
            let mut j = i; while j < b.len() && (b[j].is_ascii_alphanumeric() || b[j] == '_') { j += 1; }
            let tok: String = b[i..j].iter().collect();
            if tok.chars().all(|c| c.is_ascii_digit()) && rng.chance(1, 3) { let v: u64 = tok.parse().unwrap_or(0); let nv = match rng.below(4) { 0 => v + 1, 1 => v.saturating_sub(1), 2 => 0, _ => rng.below(5) as u64 }; out += &nv.to_string(); } else { out += &tok; }
            i = j; continue;
        }
        if pick == 0 && c == '=' && i + 1 < b.len() && b[i + 1] == '>' && rng.chance(1, 4) { out.push(','); i += 2; continue; } // condition-consequence → plain sequence
        if pick == 1 && c == ',' && rng.chance(1, 10) { out.push(' '); i += 1; continue; } // step boundary → chain (nil stops short-circuiting)
        out.push(c); i += 1;
    }
    if pick == 2 {
        // swap two adjacent top-level branches of the first block that has them
        if let Some(s) = swap_branches(&out, rng) { return s; }
    }
    out
}

fn swap_branches(src: &str, rng: &mut Rng) -> Option<String> {
    let b: Vec<char> = src.chars().collect();
    // find the bars at depth 1 of some brace block
    let mut starts = vec![]; for (i, c) in b.iter().enumerate() { if *c == '{' { starts.push(i); } }
    if starts.is_empty() { return None; }
    let s0 = starts[rng.below(starts.len())];
    let mut depth = 0i32; let mut bars = vec![]; let mut end = None; let mut in_str = false;
    for i in s0..b.len() { let c = b[i]; if c == '"' { in_str = !in_str; } if in_str { continue; } match c { '{' | '[' | '(' => depth += 1, '}' | ']' | ')' => { depth -= 1; if depth == 0 { end = Some(i); break; } } '|' if depth == 1 => bars.push(i), _ => {} } }
    let end = end?;
    if bars.len() < 2 { return None; }
    let k = rng.below(bars.len() - 1);
    let (a0, a1, a2) = (bars[k], bars[k + 1], if k + 2 < bars.len() { bars[k + 2] } else { end });
    let first: String = b[a0 + 1..a1].iter().collect(); let second: String = b[a1 + 1..a2].iter().collect();
    let mut out: String = b[..a0 + 1].iter().collect(); out += &second; out.push('|'); out += &first; out += &b[a2..].iter().collect::<String>();
    Some(out)
}

// ---------------------------------------------------------------------- the check

pub enum Verdict { Agree, Inconclusive(String), Rejected(String), Disagree(String, String, Vec<&'static str>) }

pub fn judge(src: &str, b: &qv::Builtins, mods: &HashMap<String, String>, rep: Option<&Report>) -> Verdict {
    let bc = match crate::procsys::compile_entry(src, b) { Ok(bc) => bc, Err(e) => return Verdict::Rejected({ let t = format!("{:?}", e); t.split(|c: char| !c.is_alphanumeric()).filter(|w| !w.is_empty()).take(2).collect::<Vec<_>>().join(":") }) };
    let (reference, counters) = refsem::evaluate(src, mods);
    match &reference {
        Outcome::Unsupported(r) => return Verdict::Inconclusive(format!("outside the reference evaluator: {}", r)),
        Outcome::Budget => return Verdict::Inconclusive("reference budget".into()),
        // ill-typed under the spec: no value is defined for it; that the compiler accepted it is C01's business
        Outcome::TypeError(r) => return Verdict::Inconclusive(format!("reference finds the program ill-typed: {}", r)),
        _ => {}
    }
    let compiled = crate::procsys::run_capped(&bc, b, 4000);
    if let Some(rep) = rep { for (k, v) in &counters { rep.count(&format!("observed_{}", k), *v); } }
    match (&compiled, &reference) {
        (RunOutcome::Panic(m), _) if m.contains("StepCap") || m.contains("no result") => Verdict::Inconclusive("compiled run hit the step cap".into()),
        (RunOutcome::Value(c), Outcome::Value(r)) if refsem::normalize_cv(c) == refsem::normalize_cv(r) => Verdict::Agree,
        (RunOutcome::Error(_), Outcome::Error(_)) => Verdict::Agree,
        (c, r) => {
            let (cs, rs) = match (c, r) { (RunOutcome::Value(c), Outcome::Value(r)) => (c.show(), r.show()), _ => (format!("{:?}", c), format!("{:?}", r)) };
            // events the reference evaluator saw in this run that are the triggers of recorded type holes (known_findings.json)
            let mut events = vec![];
            for e in ["nil_bound_by_bare_binder", "failed_match_then_more_terms_in_chain", "partial_parameter_with_a_field_at_another_index"] { if counters.get(e).copied().unwrap_or(0) > 0 { events.push(e); } }
            // second run, one instruction per step, under the IsType monitor: did the VM's type test reject a value that
            // structurally inhabits the tested type?  (recorded finding: the test goes by the type the tuple was built at)
            if let Some(m) = crate::tymon::run(src, b, 400_000) { if m.rejected_structural_member > 0 { events.push("istype_rejected_structural_member"); } }
            Verdict::Disagree(cs, rs, events)
        }
    }
}

fn cv_hash(s: &str) -> u64 { let mut h = 0xcbf29ce484222325u64; for b in s.bytes() { h ^= b as u64; h = h.wrapping_mul(0x100000001b3); } h }

pub fn check(rep: &Report) {
    let quick = rep.quick();
    let b = qv::builtins();
    let mods = refsem::std_sources("/repo");
    let items: Vec<crate::corpus::Item> = crate::corpus::load("/repo").into_iter().filter(|i| i.origin.starts_with("tests/") || i.origin.starts_with("docs")).collect();
    rep.extra("corpus_programs", json!(items.len()));
    let n_mut = if quick { 20_000 } else { 150_000 };
    let n_gen = if quick { 250_000 } else { 1_500_000 };
    let total = items.len() + n_mut + n_gen;
    let findings = crate::report::load_findings();
    let _ = &findings;
    // diagnostic watchdog: names the program of any job that runs for more than 30 s (it cannot stop it)
    let in_flight: std::sync::Arc<std::sync::Mutex<HashMap<usize, (std::time::Instant, String)>>> = Default::default();
    let done = std::sync::Arc::new(std::sync::atomic::AtomicBool::new(false));
    { let in_flight = in_flight.clone(); let done = done.clone(); std::thread::spawn(move || { let mut told: std::collections::HashSet<usize> = Default::default(); while !done.load(std::sync::atomic::Ordering::Relaxed) { std::thread::sleep(std::time::Duration::from_secs(5)); for (j, (t, src)) in in_flight.lock().unwrap().iter() { if t.elapsed().as_secs() > 30 && told.insert(*j) { eprintln!("C02 slow job {} (>30s): {}", j, src); } } } }); }
    crate::pool::run_indexed(total, 512, |j| {
        let (family, src, feats): (&str, String, HashMap<&'static str, u64>) = if j < items.len() { ("corpus", items[j].src.clone(), HashMap::new()) }
        else if j < items.len() + n_mut { let mut rng = Rng::derive(rep.seed, "C02-mut", 0, j as u64); let it = &items[rng.below(items.len())]; ("mutated", mutate(&it.src, &mut rng), HashMap::new()) }
        else { let mut rng = Rng::derive(rep.seed, "C02-gen", 0, j as u64); let fuel = *rng.pick(&[4i64, 8, 16, 30, 60]); let nilb = rng.chance(1, 8); let partial = !nilb && rng.chance(1, 8); let mut g = Gen::new(&mut rng, fuel); g.allow_nil_binds = nilb; g.allow_partial_params = partial; let s = g.program(); let f = g.feats; (if nilb { "generated-nil-binders" } else if partial { "generated-partial-parameters" } else { "generated" }, s, f) };
        if family == "mutated" && items.iter().any(|i| i.src == src) { rep.count("mutation_was_identity", 1); return; }
        in_flight.lock().unwrap().insert(j, (std::time::Instant::now(), src.clone()));
        let v0 = crate::pool::catch(|| judge(&src, &b, &mods, Some(rep)));
        in_flight.lock().unwrap().remove(&j);
        let v = match v0 { Ok(v) => v, Err(p) => { if p.contains("stack") { Verdict::Inconclusive("harness stack".into()) } else { Verdict::Disagree(format!("panic: {}", p), "reference or compiler panicked".into(), vec![]) } } };
        match v {
            Verdict::Rejected(kind) => { rep.count(&format!("{}_rejected_by_compiler", family), 1); if family.starts_with("generated") {
                // The generator only mentions names its own scope model holds, and the reference evaluator resolves names by the
                // spec's scoping rules: a program the reference runs to a value but the compiler turns down for an undefined
                // variable is a well-formed program with no compiled value (a closure that failed to capture, a pattern compiled
                // before the names it pins were visible).
                if kind.contains("VariableUndefined") { if let (Outcome::Value(r), _) = refsem::evaluate(&src, &mods) {
                    rep.eval(1);
                    rep.violation(Violation { signature: format!("C02:{}:rejected:{}", family, cv_hash(&src)), what: format!("the compiler rejects, for an undefined variable, a {} program in which every name is in scope (the reference evaluator runs it to a value)", family), witness: json!({"family": family, "program": src, "compiled": format!("{:?}", crate::procsys::compile_entry(&src, &b).err()), "reference": r.show(), "index": j}) });
                } } rep.count(&format!("generated_rejection={}", kind), 1); if kind.contains("InternalError") && std::env::var("VERIF_C02_SHOW_INTERNAL").is_ok() { eprintln!("INTERNAL [{}] {:?}\n{}\n", family, crate::procsys::compile_entry(&src, &b).err(), src); } } }
            Verdict::Inconclusive(why) => { rep.count(&format!("{}_inconclusive", family), 1); rep.count(&format!("inconclusive: {}", why), 1); }
            Verdict::Agree => {
                rep.eval(1); rep.count(&format!("{}_agree", family), 1); rep.distinct(cv_hash(&src));
                for (k, n) in &feats { rep.count(&format!("generated_feature_{}", k), *n); }
                if rep.want_sample() && family.starts_with("generated") { rep.sample(json!({"family": family, "program": src})); }
            }
            Verdict::Disagree(c, r, events) => {
                rep.eval(1);
                // Two recorded type holes change what later code is compiled against: a bare binder that binds nil (typed as if the
                // step had short-circuited) and a failed match in the middle of a chain (its narrowing stays in force for the rest
                // of the chain).  The plain generated family never produces either trigger, so nothing is attributed there; in the
                // other families a disagreement in a run that contained the trigger is attributed to the recorded hole.
                let sig = if events.contains(&"istype_rejected_structural_member") { "C02:type-test-goes-by-construction-site-type".to_string() }
                    else if family != "generated" && events.contains(&"partial_parameter_with_a_field_at_another_index") { "C02:field-of-partial-typed-value-read-at-the-partial-types-index".to_string() }
                    else if family != "generated" && events.contains(&"nil_bound_by_bare_binder") { "C02:variable-bound-to-nil-by-bare-binder-is-typed-non-nil".to_string() }
                    else if family != "generated" && events.contains(&"failed_match_then_more_terms_in_chain") { "C02:failed-mid-chain-match-keeps-its-narrowing".to_string() }
                    else { format!("C02:{}:{}", family, cv_hash(&src)) };
                rep.violation(Violation { signature: sig, what: format!("compiled value differs from the reference evaluator ({} program)", family), witness: json!({"family": family, "program": src, "compiled": c, "reference": r, "index": j, "trigger_events": events}) });
            }
        }
    });
    done.store(true, std::sync::atomic::Ordering::Relaxed);
}

pub const RULE: &str = "for every program of the workload (repository corpus, perturbed corpus, generated programs) that the compiler accepts and the reference evaluator covers: normalised value of compile+run == normalised value of the independent reference evaluator of docs/spec.md, and error-vs-value agrees; and a generated program (every name in scope by construction) that the reference evaluator runs to a value is not rejected by the compiler for an undefined variable";
pub const ASSUME: &[&str] = &["the reference evaluator (harness/vh/src/refsem.rs) is the reading of docs/spec.md; it was calibrated on the repository's own expected values and shares no code with the compiler or VM (only the parser's AST)", "programs using processes, %ref, inferred-parameter literals or type tests on function types are outside the evaluator and counted inconclusive", "two Destructuring examples in docs/spec.md that the implementation and its tests contradict are read the implementation's way"];
pub const SITUATIONS: &[&str] = &["corpus_agree", "mutated_agree", "generated_agree", "observed_matches_failed", "observed_branches_fallen_through", "observed_sequence_short_circuits", "observed_tail_calls", "observed_spreads", "generated_feature_mid_chain_match", "generated_feature_multi_step_consequence", "generated_feature_tail_call_from_nested_block", "generated_feature_closure_captures_in_scope"];
