//! C03 — results do not depend on scheduling, worker count or quantum.
use crate::procsys::*;
use crate::qv;
use crate::report::{Report, Violation};
use crate::rng::Rng;
use crate::scen::*;
use crate::simnet::*;
use serde_json::json;
use std::collections::BTreeMap;

pub struct SchedCfg {
    pub workers: usize,
    pub strat: Strategy,
    pub qp: QuantumPolicy,
    pub seed: u64,
}

pub fn sched_variants(rng: &mut Rng, k: usize) -> Vec<SchedCfg> {
    let mut v = vec![SchedCfg { workers: 2, strat: Strategy::Eager, qp: QuantumPolicy::Fixed(1000), seed: 0 }];
    let ws = [1usize, 2, 3, 5];
    while v.len() < k {
        let workers = *rng.pick(&ws);
        let strat = match rng.below(9) { 0 => Strategy::Eager, 1 | 2 => Strategy::Uniform, 3 => Strategy::Lazy, 4 => Strategy::Single,
            5 => Strategy::StarveWorker(rng.below(workers)), 6 => Strategy::StarveEnv, 7 => Strategy::Pct, _ => Strategy::RoundRobin };
        let qp = match rng.below(5) { 0 => QuantumPolicy::Fixed(1), 1 => QuantumPolicy::Fixed(1000), 2 => QuantumPolicy::PinOne(rng.below(workers)), 3 => QuantumPolicy::Fixed(2), _ => QuantumPolicy::Mixed };
        v.push(SchedCfg { workers, strat, qp, seed: rng.next() });
    }
    v
}

pub struct RunObs {
    pub end: RunEnd,
    pub fates: BTreeMap<String, Fate>,
    pub sim: Sim,
    pub root: ProcessId2,
}
pub type ProcessId2 = usize;

pub fn run_once(bc: &quiver_core::bytecode::Bytecode, b: &qv::Builtins, sc: &SchedCfg, max_steps: usize) -> RunObs {
    let mut sim = Sim::new(sc.workers, b, false, None);
    let st = start_program(&mut sim, bc.clone()).expect("start");
    let mut rng = Rng::new(sc.seed);
    let end = sim.run(sc.strat, sc.qp, &mut rng, max_steps, &|| false, &mut |_s| false);
    let f = fates(&sim, st.pid);
    RunObs { end, fates: f, sim, root: st.pid }
}

pub fn expected_fates(sc: &Scenario, m: &ModelResult) -> BTreeMap<String, ModelFate> {
    let names = sc.names();
    m.fates.iter().map(|(n, f)| (names[n].clone(), f.clone())).collect()
}

pub fn witness(sc: &Scenario, src: &str, cfg: &SchedCfg, sim: &Sim) -> serde_json::Value {
    json!({
        "source": src,
        "workers": cfg.workers,
        "strategy": format!("{:?}", cfg.strat),
        "quantum": format!("{:?}", cfg.qp),
        "sched_seed": cfg.seed,
        "actions": sim.actions.iter().map(act_to_json).collect::<Vec<_>>(),
        "scenario_nodes": sc.nodes.len(),
    })
}

pub fn check(rep: &Report) {
    let quick = rep.quick();
    // shared-await templates (several awaiters of one target, finished / failed / heap-result targets)
    crate::c04::check_await_templates(rep, "C03", if quick { 40 } else { 1000 }, if quick { 24 } else { 60 });
    let n_scen = if quick { 4000 } else { 60000 };
    let n_sched = if quick { 30 } else { 120 };
    let b = qv::builtins();
    crate::pool::run_indexed(n_scen, 256, |i| {
        let mut rng = Rng::derive(rep.seed, "C03", 0, i as u64);
        let cfg = GenCfg { max_nodes: if i % 3 == 0 { 12 } else { 7 }, max_depth: 4, confluent: true, fail_permille: 0, binaries: true };
        let sc = generate(&mut rng, &cfg);
        let src = sc.emit();
        let bc = match compile_entry(&src, &b) {
            Ok(bc) => bc,
            Err(e) => { rep.count("generator_rejects_compile", 1); rep.inconclusive(json!({"why": "scenario did not compile", "err": format!("{:?}", e).chars().take(200).collect::<String>()})); return; }
        };
        let model = std::panic::catch_unwind(|| run_model(&sc));
        let Ok(model) = model else { rep.count("model_error", 1); return; };
        if model.fates.values().any(|f| !matches!(f, ModelFate::Done(_))) { rep.count("generator_rejects_model_blocks", 1); return; }
        let names = sc.names();
        let expect: BTreeMap<String, qv::CV> = model.fates.iter().map(|(n, f)| (names[n].clone(), match f { ModelFate::Done(v) => v.to_cv(&names), _ => unreachable!() })).collect();
        rep.distinct(sc.hash());
        if rep.want_sample() { rep.sample(json!({"scenario_source": src, "model_results": expect.iter().map(|(k, v)| (k.clone(), v.show())).collect::<BTreeMap<_, _>>()})); }
        rep.count("scenarios", 1);
        rep.count("processes", sc.nodes.len() as u64);
        let scheds = sched_variants(&mut rng, n_sched);
        for cfg in &scheds {
            let obs = run_once(&bc, &b, cfg, 200_000);
            rep.eval(1);
            rep.set_insert("schedule_hashes", obs.sim.schedule_hash());
            rep.set_insert("consumption_orders", obs.sim.consumption_hash() ^ sc.hash());
            rep.count(&format!("workers={}", cfg.workers), 1);
            rep.count(&format!("strategy={:?}", match cfg.strat { Strategy::StarveWorker(_) => Strategy::StarveWorker(0), s => s }), 1);
            match &obs.end {
                RunEnd::Quiescent => {}
                RunEnd::StepCap => { rep.inconclusive(json!({"why": "step cap", "workers": cfg.workers})); continue; }
                RunEnd::Trouble(t) => {
                    rep.violation(Violation { signature: format!("C03:trouble:{}", trouble_sig(t)), what: format!("worker/environment step failed: {:?}", t), witness: witness(&sc, &src, cfg, &obs.sim) });
                    continue;
                }
                RunEnd::Stopped => {}
            }
            // compare
            let mut bad: Vec<String> = vec![];
            for (name, want) in &expect {
                match obs.fates.get(name) {
                    Some(Fate::Done(got)) if got == want => {}
                    Some(Fate::Done(got)) => bad.push(format!("{}: got {} want {}", name, got.show(), want.show())),
                    Some(Fate::Failed(e)) => bad.push(format!("{}: failed {:?} want {}", name, e, want.show())),
                    Some(Fate::Running) => bad.push(format!("{}: not terminated at quiescence, want {}", name, want.show())),
                    None => bad.push(format!("{}: never created", name)),
                }
            }
            if !bad.is_empty() {
                let kind = if bad.iter().any(|s| s.contains("not terminated") || s.contains("never created")) { "hang" } else if bad.iter().any(|s| s.contains("failed")) { "fail" } else { "value" };
                rep.violation(Violation { signature: format!("C03:{}", kind), what: bad.join("; "), witness: witness(&sc, &src, cfg, &obs.sim) });
            }
        }
    });
}

pub fn trouble_sig(t: &Trouble) -> String {
    match t {
        Trouble::WorkerPanic(_, m) => format!("worker-panic:{}", m.chars().take(60).collect::<String>()),
        Trouble::EnvPanic(m) => format!("env-panic:{}", m.chars().take(60).collect::<String>()),
        Trouble::WorkerErr(_, m) => format!("worker-err:{}", m.chars().take(60).collect::<String>()),
        Trouble::EnvErr(m) => format!("env-err:{}", m.chars().take(60).collect::<String>()),
    }
}

pub const RULE: &str = "generated confluent process trees (single-sender mailboxes, awaits, typed/filter receives, tail-recursive receive loops, binaries in messages) x schedules (workers in {1,2,3,5} x 8 strategies x quantum policy x seed); a case = one (scenario, schedule) execution on SimNet; distinct_nontrivial = distinct scenario sources whose model completes with every process terminated; distinct schedule / command-consumption-order hashes reported separately";
pub const ASSUME: &[&str] = &[
    "SimNet's atomic-step + prefix-visibility model covers the real transport's interleavings (Worker::step / Environment::step read their inbound channel only at the top of a step)",
    "the scenario model (Kahn-style single-sender network) is the reference outcome",
];
