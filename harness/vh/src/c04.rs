//! C04 — messages exactly-once, per-sender FIFO, no lost wake-ups.
use crate::c03::{run_once, sched_variants, trouble_sig, witness};
use crate::procsys::*;
use crate::qv::{self, CV};
use crate::report::{Report, Violation};
use crate::rng::Rng;
use crate::scen::*;
use crate::simnet::*;
use quiver_environment::{Command, Event};
use serde_json::json;
use std::collections::BTreeMap;

fn is_msg(cv: &CV) -> Option<(Kind, i64, i64)> {
    if let CV::Tuple(Some(n), fs) = cv {
        if fs.len() == 3 && (n == "I" || n == "B") {
            if let (CV::Int(f), CV::Int(s)) = (&fs[0].1, &fs[1].1) {
                use num_traits::ToPrimitive;
                return Some((if n == "I" { Kind::I } else { Kind::B }, f.to_i64()?, s.to_i64()?));
            }
        }
    }
    None
}

/// Replace every message by a placeholder so that schedule-dependent choices disappear.
fn erase_msgs(cv: &CV) -> CV {
    if is_msg(cv).is_some() { return CV::Builtin("<msg>".into()); }
    match cv {
        CV::Tuple(n, fs) => CV::Tuple(n.clone(), fs.iter().map(|(l, v)| (l.clone(), erase_msgs(v))).collect()),
        other => other.clone(),
    }
}

/// Boundary-log conservation: what the environment consumed it must have forwarded, once, in order.
pub fn boundary_conservation(sim: &Sim) -> Result<(u64, u64), String> {
    let router = sim.env.verif_process_router();
    sim.with_log(|log| {
        let mut delivered_in: Vec<String> = vec![];
        let mut delivered_out: Vec<String> = vec![];
        let mut spawns_in = 0u64;
        let mut spawn_cmds = 0u64;
        let mut notify_cmds = 0u64;
        for e in log {
            match (&e.item, e.stage) {
                (Item::Evt(Event::DeliverAction { target, message, heap }), Stage::Consumed) => delivered_in.push(format!("{}:{:?}:{:?}", target, message, heap)),
                (Item::Cmd(Command::DeliverMessage { target, message, heap }), Stage::Sent) => {
                    if router.get(target) != Some(&e.worker) { return Err(format!("DeliverMessage for {} sent to worker {} but router says {:?}", target, e.worker, router.get(target))); }
                    delivered_out.push(format!("{}:{:?}:{:?}", target, message, heap));
                }
                (Item::Evt(Event::SpawnAction { .. }), Stage::Consumed) => spawns_in += 1,
                (Item::Cmd(Command::SpawnProcess { .. }), Stage::Sent) => spawn_cmds += 1,
                (Item::Cmd(Command::NotifySpawn { .. }), Stage::Sent) => notify_cmds += 1,
                _ => {}
            }
        }
        if delivered_in != delivered_out {
            return Err(format!("environment consumed {} DeliverAction(s) but forwarded {} DeliverMessage(s) (or in a different order)", delivered_in.len(), delivered_out.len()));
        }
        if spawns_in != spawn_cmds || spawns_in != notify_cmds {
            return Err(format!("{} SpawnAction consumed, {} SpawnProcess and {} NotifySpawn sent", spawns_in, spawn_cmds, notify_cmds));
        }
        Ok((delivered_in.len() as u64, spawns_in))
    })
}

pub fn mailbox_of(sim: &Sim, pid: usize) -> Vec<CV> {
    let Some(p) = sim.process(pid) else { return vec![] };
    let w = sim.host_of(pid).unwrap();
    let ex = sim.workers[w].verif_executor();
    let program = sim.env.get_program();
    p.mailbox.iter().map(|v| qv::canon(v, program, program.get_constants(), &|i| ex.get_heap_binary(i).map(|d| d.to_vec()), &|i| program.get_builtins().get(i).map(|b| b.name.clone()).unwrap_or_default())).collect()
}

pub fn check(rep: &Report) {
    let quick = rep.quick();
    // shared-await templates (several awaiters of one target, finished / failed / heap-result targets)
    check_await_templates(rep, "C04", if quick { 60 } else { 1500 }, if quick { 24 } else { 60 });
    let n_scen = if quick { 4000 } else { 60000 };
    let n_sched = if quick { 24 } else { 100 };
    let b = qv::builtins();
    crate::pool::run_indexed(n_scen, 256, |i| {
        let mut rng = Rng::derive(rep.seed, "C04", 0, i as u64);
        let cfg = GenCfg { max_nodes: if i % 3 == 0 { 10 } else { 6 }, max_depth: 3, confluent: false, fail_permille: 0, binaries: true };
        let sc = generate(&mut rng, &cfg);
        let src = sc.emit();
        let bc = match compile_entry(&src, &b) {
            Ok(bc) => bc,
            Err(e) => { rep.count("generator_rejects_compile", 1); rep.inconclusive(json!({"why": "scenario did not compile", "err": format!("{:?}", e).chars().take(160).collect::<String>()})); return; }
        };
        let Ok(model) = std::panic::catch_unwind(|| run_model(&sc)) else { rep.count("model_error", 1); return; };
        if model.fates.values().any(|f| !matches!(f, ModelFate::Done(_))) { rep.count("generator_rejects_model_blocks", 1); return; }
        let names = sc.names();
        let by_name: BTreeMap<String, usize> = names.iter().map(|(n, s)| (s.clone(), *n)).collect();
        // messages sent to each node (static in these scenarios)
        let sent_to: BTreeMap<usize, Vec<CV>> = (0..sc.nodes.len()).map(|n| (n, model.sent.get(&n).map(|v| v.iter().map(|m| m.to_cv(&names)).collect()).unwrap_or_default())).collect();
        let expect_shape: BTreeMap<String, CV> = model.fates.iter().map(|(n, f)| (names[n].clone(), match f { ModelFate::Done(v) => erase_msgs(&v.to_cv(&names)), _ => unreachable!() })).collect();
        let total_msgs: usize = sent_to.values().map(|v| v.len()).sum();
        let multi_sender = (0..sc.nodes.len()).any(|n| { let mut s: Vec<i64> = sent_to[&n].iter().filter_map(|m| is_msg(m).map(|x| x.1)).collect(); s.sort(); s.dedup(); s.len() > 1 });
        if total_msgs > 0 { rep.distinct(sc.hash()); }
        if multi_sender { rep.count("scenarios_with_fan_in", 1); }
        if rep.want_sample() { rep.sample(json!({"scenario_source": src, "messages": total_msgs})); }
        rep.count("scenarios", 1);
        rep.count("messages_per_scenario_total", total_msgs as u64);
        let scheds = sched_variants(&mut rng, n_sched);
        for cfg in &scheds {
            let obs = run_once(&bc, &b, cfg, 200_000);
            rep.eval(1);
            rep.set_insert("schedule_hashes", obs.sim.schedule_hash());
            rep.set_insert("consumption_orders", obs.sim.consumption_hash() ^ sc.hash());
            for (k, v) in &obs.sim.situations { rep.count(k, *v); }
            let viol = |sig: &str, what: String| rep.violation(Violation { signature: format!("C04:{}", sig), what, witness: witness(&sc, &src, cfg, &obs.sim) });
            match &obs.end {
                RunEnd::Quiescent => {}
                RunEnd::StepCap => { rep.inconclusive(json!({"why": "step cap"})); continue; }
                RunEnd::Trouble(t) => { viol(&format!("trouble:{}", trouble_sig(t)), format!("{:?}", t)); continue; }
                RunEnd::Stopped => {}
            }
            // layer 1: boundary conservation
            match boundary_conservation(&obs.sim) {
                Ok((d, s)) => { rep.count("boundary_delivers_checked", d); rep.count("boundary_spawns_checked", s); }
                Err(e) => { viol("boundary", e); continue; }
            }
            // layer 3: no process may be parked at quiescence (model says all terminate)
            let pid_names = logical_names(&obs.sim, obs.root);
            let mut hung = vec![];
            for (pid, name) in &pid_names {
                if let Some(Fate::Running) = obs.fates.get(name) {
                    let w = obs.sim.host_of(*pid).unwrap();
                    let sv = obs.sim.workers[w].verif_executor().verif_sched_view();
                    let why = if sv.spawning.contains(pid) { "parked-spawning" } else if sv.selecting.contains(pid) { "parked-selecting" } else { "not-queued" };
                    hung.push(format!("{}({})", name, why));
                }
            }
            for name in expect_shape.keys() { if !obs.fates.contains_key(name) { hung.push(format!("{}(never-created)", name)); } }
            if !hung.is_empty() { viol("lost-wakeup", format!("system idle with blocked processes although every source they wait for was sent: {}", hung.join(", "))); continue; }
            // layer 2: end state per node
            for (name, want_shape) in &expect_shape {
                let node = by_name[name];
                let got = match obs.fates.get(name) { Some(Fate::Done(v)) => v.clone(), Some(Fate::Failed(e)) => { viol("fail", format!("{} failed with {:?}", name, e)); continue; } _ => continue };
                if &erase_msgs(&got) != want_shape { viol("value", format!("{}: got {} want shape {}", name, got.show(), want_shape.show())); continue; }
                if sc.nodes[node].sum_loop.is_some() {
                    // sum node: value must equal the model's (order independent)
                    if let ModelFate::Done(v) = &model.fates[&node] { if v.to_cv(&names) != got { viol("value", format!("{}: sum {} want {}", name, got.show(), v.to_cv(&names).show())); } }
                    continue;
                }
                let received: Vec<CV> = match &got { CV::Tuple(None, fs) => fs.iter().filter(|(_, v)| is_msg(v).is_some()).map(|(_, v)| v.clone()).collect(), _ => vec![] };
                let pid = pid_names.iter().find(|(_, n)| *n == name).map(|(p, _)| *p).unwrap();
                let leftover = mailbox_of(&obs.sim, pid);
                // exactly once: received ⊎ leftover == sent
                let mut all: Vec<CV> = received.iter().chain(leftover.iter()).cloned().collect();
                let mut want: Vec<CV> = sent_to[&node].clone();
                all.sort(); want.sort();
                if all != want {
                    let lost: Vec<String> = want.iter().filter(|m| !all.contains(m)).map(|m| m.show()).collect();
                    let sig = if all.len() > want.len() || all.windows(2).any(|w| w[0] == w[1]) { "duplicate" } else { "lost" };
                    viol(sig, format!("{}: received {:?} + mailbox {:?} != sent {:?}; missing {:?}", name, received.iter().map(|m| m.show()).collect::<Vec<_>>(), leftover.iter().map(|m| m.show()).collect::<Vec<_>>(), want.iter().map(|m| m.show()).collect::<Vec<_>>(), lost));
                    continue;
                }
                rep.count("messages_accounted", want.len() as u64);
                rep.count("messages_left_in_mailbox", leftover.len() as u64);
                // selectors satisfied, in Recv order
                let sels: Vec<&RecvSel> = sc.nodes[node].body.iter().filter_map(|a| if let Action::Recv { sel, .. } = a { Some(sel) } else { None }).collect();
                for (k, m) in received.iter().enumerate() {
                    let (kind, from, seq) = is_msg(m).unwrap();
                    let ok = match sels.get(k) { Some(RecvSel::Any) => true, Some(RecvSel::Only(kd)) => *kd == kind, Some(RecvSel::Ident(f, s)) => *f == from && *s == seq, Some(_) => true, None => false };
                    if !ok { viol("wrong-message", format!("{}: receive #{} with {:?} yielded {}", name, k, sels.get(k), m.show())); }
                }
                // per-sender FIFO. For Any / by-kind receives the per-sender (per-kind) subsequence of
                // received++leftover must be in send order; leftovers alone must always be.
                let fifo_scope: Vec<&CV> = if sels.iter().all(|s| matches!(s, RecvSel::Any)) { received.iter().chain(leftover.iter()).collect() } else { leftover.iter().collect() };
                let mut last: BTreeMap<i64, i64> = BTreeMap::new();
                for m in fifo_scope {
                    let (_, from, seq) = is_msg(m).unwrap();
                    if let Some(prev) = last.get(&from) { if *prev > seq { viol("fifo", format!("{}: message {} from sender {} observed after seq {}", name, m.show(), from, prev)); } }
                    last.insert(from, seq);
                }
                if sels.iter().all(|s| matches!(s, RecvSel::Only(_))) {
                    let mut lastk: BTreeMap<(i64, bool), i64> = BTreeMap::new();
                    for m in received.iter().chain(leftover.iter()) {
                        let (kind, from, seq) = is_msg(m).unwrap();
                        let key = (from, kind == Kind::I);
                        if let Some(prev) = lastk.get(&key) { if *prev > seq { viol("fifo", format!("{}: {} overtook seq {} of the same sender and kind", name, m.show(), prev)); } }
                        lastk.insert(key, seq);
                    }
                }
            }
        }
    });
}

pub const RULE: &str = "generated message-passing process trees (fan-in with several senders per mailbox, fan-out, request/reply, await chains, typed / identity-filter receives that reorder the mailbox, receivers that deliberately take fewer messages than sent) x SimNet schedules; every message is unique [sender, seq, payload]; a case = one (scenario, schedule) execution checked by three layers: boundary-log conservation (DeliverAction->DeliverMessage, SpawnAction->SpawnProcess+NotifySpawn), end state (received + leftover mailbox == sent as multisets, per-sender order), no process parked at quiescence; distinct_nontrivial = distinct scenario sources that send at least one message";
pub const ASSUME: &[&str] = &[
    "SimNet interleaving model (DESIGN §2.3)",
    "scenario control flow is static (payloads are literals), so the set of sent messages is schedule independent and completion is monotone (DESIGN §2.4)",
];
pub const SITUATIONS: &[&str] = &["deliver_to_finished", "deliver_while_spawning", "deliver_while_selecting", "deliver_mid_filter", "deliver_while_running", "await_answer_none_while_spawning", "scenarios_with_fan_in", "messages_left_in_mailbox", "query_target_finished"];

// ---------------------------------------------------------------------------------------------
// Shared-await templates: several processes await the same target (the scenario DSL only lets a parent await its own
// children), targets that have already finished or failed when the await is issued, results that live on the heap, and
// selects over a failed and a blocked process.  Each template has a schedule-independent expected outcome; a root that
// does not finish is a lost wake-up.

/// (name, source, expected root outcome: "value <show>" or "error <substring>")
pub fn await_templates(rng: &mut Rng) -> Vec<(&'static str, String, String)> {
    let v = rng.range(1, 90); let k = *rng.pick(&[0i64, 1, 50, 100]); let n = 2 + rng.below(3);
    let delay = |k: i64| if k == 0 { String::new() } else { format!("! [{}] =[], ", k) };
    let mut out = vec![];
    // several awaiters of one (possibly still running) target, created in different orders
    let awaiters: Vec<String> = (0..n).map(|i| format!("a{} = @#{{ !t }}", i)).collect();
    let collect: Vec<String> = (0..n).map(|i| format!("!a{}", i)).collect();
    out.push(("shared-await-of-a-delayed-target", format!("t = @#{{ {}{} }}, {}, [!t, {}]", delay(k), v, awaiters.join(", "), collect.join(", ")), format!("value [{}]", std::iter::repeat(v.to_string()).take(n + 1).collect::<Vec<_>>().join(", "))));
    out.push(("shared-await-awaiters-first-collected-first", format!("t = @#{{ {}{} }}, {}, [{}, !t]", delay(k), v, awaiters.join(", "), collect.join(", ")), format!("value [{}]", std::iter::repeat(v.to_string()).take(n + 1).collect::<Vec<_>>().join(", "))));
    out.push(("shared-await-of-a-target-released-by-a-message", format!("t = @#{{ !#'int }}, {}, {} t, [{}]", awaiters.join(", "), v, collect.join(", ")), format!("value [{}]", std::iter::repeat(v.to_string()).take(n).collect::<Vec<_>>().join(", "))));
    // heap-binary results awaited by several processes / on the same worker as the target
    out.push(("shared-await-of-a-heap-binary-result", format!("q = @#{{ {} }}, p = @#{{ !#'int, [0x01, 0x02] __binary_concat__ }}, a0 = @#{{ !p }}, 1 p, [!p, !q, !a0]", v), format!("value [0x0102, {}, 0x0102]", v)));
    // a target that has already failed (or fails later) awaited directly and through a select next to a blocked process
    out.push(("select-over-a-failed-and-a-blocked-process", format!("f = @#{{ {}[1, 0] __integer_divide__ }}, g = @#{{ !#'int }}, {}! [f, g]", delay(k), delay(*rng.pick(&[0i64, 100, 200]))), "error Division by zero".to_string()));
    out.push(("failed-target-awaited-by-several", format!("f = @#{{ {}[1, 0] __integer_divide__ }}, a0 = @#{{ !f }}, a1 = @#{{ !f }}, !a0", delay(k)), "error Division by zero".to_string()));
    out.push(("await-after-the-target-finished", format!("t = @#{{ {} }}, ! [{}] =[], a0 = @#{{ !t }}, [!a0, !t, !t]", v, 10 + k), format!("value [{}, {}, {}]", v, v, v)));
    out
}

/// run the templates under schedule variants; `prop` is the property reporting them
pub fn check_await_templates(rep: &Report, prop: &str, rounds: usize, n_sched: usize) {
    let b = qv::builtins();
    crate::pool::run_indexed(rounds, 256, |i| {
        let mut rng = Rng::derive(rep.seed, "await-templates", 0, i as u64);
        for (name, src, expect) in await_templates(&mut rng) {
            let bc = match compile_entry(&src, &b) { Ok(bc) => bc, Err(e) => { rep.violation(Violation { signature: format!("{}:harness-template-rejected:{}", prop, name), what: format!("{:?}", e), witness: json!({"source": src}) }); continue; } };
            for cfg in crate::c03::sched_variants(&mut rng, n_sched) {
                let obs = crate::c03::run_once(&bc, &b, &cfg, 200_000);
                rep.eval(1); rep.count(&format!("template={}", name), 1); rep.count(&format!("template_workers={}", cfg.workers), 1);
                if let RunEnd::Trouble(t) = &obs.end { rep.violation(Violation { signature: format!("{}:template-trouble:{}", prop, name), what: format!("{:?}", t), witness: json!({"source": src, "workers": cfg.workers, "strategy": format!("{:?}", cfg.strat), "seed": cfg.seed}) }); break; }
                let got = match obs.fates.get("r") { Some(Fate::Done(v)) => format!("value {}", v.show()), Some(Fate::Failed(e)) => format!("error {:?}", e), _ => "root never finished".to_string() };
                let ok = if let Some(sub) = expect.strip_prefix("error ") { got.starts_with("error") && got.contains(sub) } else { got == expect };
                if !ok {
                    let kind = if got == "root never finished" { "lost-wake-up" } else if expect.starts_with("error") { "failure-not-delivered" } else { "wrong-result" };
                    rep.violation(Violation { signature: format!("{}:{}:{}", prop, kind, name), what: format!("template {} under {} workers / {:?}: expected {}, got {} (run ended {:?})", name, cfg.workers, cfg.strat, expect, got, obs.end), witness: json!({"source": src, "workers": cfg.workers, "strategy": format!("{:?}", cfg.strat), "quantum": format!("{:?}", cfg.qp), "seed": cfg.seed, "expected": expect, "got": got}) });
                    break;
                }
            }
        }
    });
}
