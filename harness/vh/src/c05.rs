//! C05 — select follows its documented semantics: priority, filters, timeouts.
use crate::c03::{sched_variants, trouble_sig, SchedCfg};
use crate::procsys::*;
use crate::qv::{self, CV};
use crate::report::{Report, Violation};
use crate::rng::Rng;
use crate::scen::Kind;
use crate::simnet::*;
use quiver_core::process::ProcessId;
use quiver_environment::{Command, Event};
use serde_json::json;
use std::cell::RefCell;
use std::collections::BTreeMap;
use std::rc::Rc;

#[derive(Clone, Debug, PartialEq)]
pub enum Pred {
    PayloadEq(i64),
    SeqGe(i64),
    FromEq(i64),
    PayloadLt(i64),
    /// on B messages: payload length == k
    BinLenEq(usize),
}

#[derive(Clone, Debug, PartialEq)]
pub enum Src {
    Await(usize),
    Recv(Kind),
    RecvAny,
    Filter(Pred),
    Timeout(u64),
}

#[derive(Clone, Debug)]
pub struct Helper {
    /// (kind, int payload or bytes)
    pub sends: Vec<(Kind, i64, Vec<u8>)>,
    /// fail (division by zero) after this many sends, if Some
    pub fail_after: Option<usize>,
    pub ret: i64,
}

#[derive(Clone, Debug)]
pub struct SelScen {
    pub helpers: Vec<Helper>,
    pub sources: Vec<Src>,
    pub drains: usize,
    pub total_msgs: usize,
}

fn hexlit(b: &[u8]) -> String { format!("0x{}", b.iter().map(|x| format!("{:02x}", x)).collect::<String>()) }

pub fn gen_sel(rng: &mut Rng) -> SelScen {
    let nh = 1 + rng.below(3);
    let mut helpers = vec![];
    for _ in 0..nh {
        let ns = rng.below(4);
        let sends: Vec<(Kind, i64, Vec<u8>)> = (0..ns).map(|_| if rng.chance(1, 4) { let n = 1 + rng.below(3); (Kind::B, 0, rng.bytes(n)) } else { (Kind::I, rng.range(0, 9), vec![]) }).collect();
        let fail_after = if rng.chance(1, 5) { Some(rng.below(ns + 1)) } else { None };
        helpers.push(Helper { sends, fail_after, ret: 0 });
    }
    for (i, h) in helpers.iter_mut().enumerate() { h.ret = 100 + i as i64 + 1; }
    let nsrc = 1 + rng.below(4);
    let mut sources = vec![];
    let mut awaited: Vec<usize> = vec![];
    for _ in 0..nsrc {
        let s = match rng.below(10) {
            0..=2 => { let c: Vec<usize> = (0..nh).filter(|h| !awaited.contains(h)).collect(); if c.is_empty() { Src::RecvAny } else { let h = *rng.pick(&c); awaited.push(h); Src::Await(h) } }
            3 => Src::Recv(Kind::I),
            4 => Src::Recv(Kind::B),
            5 => Src::RecvAny,
            6 => Src::Filter(Pred::PayloadEq(rng.range(0, 9))),
            7 => Src::Filter(match rng.below(5) { 0 => Pred::SeqGe(rng.range(0, 3)), 1 => Pred::FromEq(1 + rng.below(nh) as i64), 2 => Pred::PayloadLt(rng.range(0, 10)), _ => Pred::BinLenEq(1 + rng.below(3)) }),
            _ => Src::Timeout(*rng.pick(&[0u64, 1, 3, 10, 50])),
        };
        sources.push(s);
    }
    let total_msgs: usize = helpers.iter().map(|h| h.fail_after.map(|k| k.min(h.sends.len())).unwrap_or(h.sends.len())).sum();
    SelScen { helpers, sources, drains: total_msgs.saturating_sub(1), total_msgs }
}

impl SelScen {
    pub fn emit(&self) -> String { self.emit_opts(false) }

    /// `drop_all`: the selecting process returns a scalar, so every binary it held becomes
    /// unreachable when its function returns (exposes counts that are too high).
    pub fn emit_opts(&self, drop_all: bool) -> String {
        let mut steps = vec!["me0 = &.".to_string()];
        for (i, h) in self.helpers.iter().enumerate() {
            let id = i + 1;
            let mut body: Vec<String> = vec![];
            for (seq, (k, p, b)) in h.sends.iter().enumerate() {
                if h.fail_after == Some(seq) { body.push("zz = [1, 0] __integer_divide__".into()); }
                match k { Kind::I => body.push(format!("I[{}, {}, {}] me0", id, seq, p)), Kind::B => body.push(format!("B[{}, {}, {}] me0", id, seq, hexlit(b))) }
            }
            if h.fail_after == Some(h.sends.len()) { body.push("zz = [1, 0] __integer_divide__".into()); }
            body.push(format!("{}", h.ret));
            steps.push(format!("h{} = 0 @#'int {{ {} }}", id, body.join(", ")));
        }
        let srcs: Vec<String> = self.sources.iter().map(|s| match s {
            Src::Await(h) => format!("&h{}", h + 1),
            Src::Recv(Kind::I) => "#'mi".into(),
            Src::Recv(Kind::B) => "#'mb".into(),
            Src::RecvAny => "#'msg".into(),
            Src::Filter(Pred::PayloadEq(k)) => format!("#'mi {{ $.2 ={} }}", k),
            Src::Filter(Pred::SeqGe(k)) => format!("#'mi {{ [$.1, {}] __integer_compare__ {{ =-1 => [] | Ok }} }}", k),
            Src::Filter(Pred::FromEq(f)) => format!("#'mi {{ $.0 ={} }}", f),
            Src::Filter(Pred::PayloadLt(k)) => format!("#'mi {{ [$.2, {}] __integer_compare__ =-1 }}", k),
            Src::Filter(Pred::BinLenEq(k)) => format!("#'mb {{ [$.2 __binary_length__, {}] __integer_compare__ =0 }}", k),
            Src::Timeout(d) => format!("{}", d),
        }).collect();
        steps.push(format!("x = ! [{}]", srcs.join(", ")));
        for d in 0..self.drains { steps.push(format!("d{} = !'msg", d)); }
        let mut ret = vec!["x".to_string()];
        for d in 0..self.drains { ret.push(format!("d{}", d)); }
        if drop_all { steps.push(format!("keep = [{}]", ret.join(", "))); steps.push("0".into()); } else { steps.push(format!("[{}]", ret.join(", "))); }
        format!("{}main = #{{\n  {}\n}},\nmain\n", crate::scen::PRELUDE, steps.join(",\n  "))
    }

    /// would the select eventually have a ready source in every schedule?
    pub fn eventually_ready(&self) -> bool {
        self.sources.iter().any(|s| match s {
            Src::Await(_) => true,
            Src::Timeout(_) => true,
            Src::Recv(k) => self.helpers.iter().any(|h| h.sends.iter().take(h.fail_after.unwrap_or(usize::MAX)).any(|m| m.0 == *k)),
            Src::RecvAny => self.total_msgs > 0,
            Src::Filter(Pred::BinLenEq(k)) => self.helpers.iter().any(|h| h.sends.iter().take(h.fail_after.unwrap_or(usize::MAX)).any(|m| m.0 == Kind::B && m.2.len() == *k)),
            Src::Filter(p) => self.helpers.iter().enumerate().any(|(i, h)| h.sends.iter().enumerate().take(h.fail_after.unwrap_or(usize::MAX)).any(|(seq, m)| m.0 == Kind::I && pred_accepts(p, i as i64 + 1, seq as i64, m.1))),
        })
    }
}

pub fn pred_accepts(p: &Pred, from: i64, seq: i64, payload: i64) -> bool {
    match p { Pred::PayloadEq(k) => payload == *k, Pred::SeqGe(k) => seq >= *k, Pred::FromEq(f) => from == *f, Pred::PayloadLt(k) => payload < *k, Pred::BinLenEq(_) => false }
}

fn msg_parts(cv: &CV) -> Option<(Kind, i64, i64, Option<i64>)> {
    use num_traits::ToPrimitive;
    if let CV::Tuple(Some(n), fs) = cv {
        if fs.len() == 3 && (n == "I" || n == "B") {
            if let (CV::Int(f), CV::Int(s)) = (&fs[0].1, &fs[1].1) {
                let p = if let CV::Int(p) = &fs[2].1 { p.to_i64() } else { None };
                return Some((if n == "I" { Kind::I } else { Kind::B }, f.to_i64()?, s.to_i64()?, p));
            }
        }
    }
    None
}

fn src_accepts(s: &Src, m: &CV) -> bool {
    let Some((kind, from, seq, payload)) = msg_parts(m) else { return false };
    match s {
        Src::Recv(k) => *k == kind,
        Src::RecvAny => true,
        Src::Filter(Pred::BinLenEq(k)) => kind == Kind::B && matches!(m, CV::Tuple(_, fs) if matches!(&fs[2].1, CV::Bin(b) if b.len() == *k)),
        Src::Filter(p) => kind == Kind::I && payload.map(|pl| pred_accepts(p, from, seq, pl)).unwrap_or(false),
        _ => false,
    }
}

/// The set of outcomes the statement allows for a select completing in this state.
/// `known`: awaited helper -> Ok(value) / Err(error) as known to the selecting process.
#[derive(Clone, Debug, PartialEq)]
pub enum Outcome { Value(CV), Fail(quiver_core::error::Error) }

pub fn model_select(sources: &[Src], mailbox: &[CV], known: &BTreeMap<usize, Result<CV, quiver_core::error::Error>>, elapsed: u64) -> Vec<(usize, Outcome)> {
    let mut acceptable = vec![];
    for (i, s) in sources.iter().enumerate() {
        match s {
            Src::Await(h) => match known.get(h) {
                Some(Ok(v)) => { acceptable.push((i, Outcome::Value(v.clone()))); return acceptable; }
                Some(Err(e)) => { acceptable.push((i, Outcome::Fail(e.clone()))); return acceptable; }
                None => {}
            },
            Src::Timeout(d) => {
                if elapsed > *d { acceptable.push((i, Outcome::Value(CV::nil()))); return acceptable; }
                if elapsed == *d { acceptable.push((i, Outcome::Value(CV::nil()))); }
            }
            _ => if let Some(m) = mailbox.iter().find(|m| src_accepts(s, m)) { acceptable.push((i, Outcome::Value(m.clone()))); return acceptable; },
        }
    }
    acceptable
}

#[derive(Default)]
pub struct SelMon {
    pub root: ProcessId,
    pub sources: Vec<Src>,
    /// helper index -> pid (filled lazily)
    pub helper_pid: BTreeMap<usize, ProcessId>,
    snap: Option<Snap>,
    pub completed: Option<Completed>,
    pub violations: Vec<(String, String)>,
    pub situations: BTreeMap<&'static str, u64>,
    /// failures of awaited processes the selecting process has been told about so far (by a
    /// consumed UpdateAwaitResults, or directly by a co-located process failing while registered)
    pub learned_failures: BTreeMap<ProcessId, quiver_core::error::Error>,
    seen_failed: Vec<ProcessId>,
}

#[derive(Clone, Debug)]
struct Snap {
    had_select: bool,
    receiving: bool,
    start_time: Option<u64>,
    mailbox: Vec<CV>,
    known: BTreeMap<ProcessId, Result<CV, quiver_core::error::Error>>,
    failed: bool,
    clock: u64,
    source_count: usize,
}

#[derive(Clone, Debug)]
pub struct Completed {
    pub outcome: Outcome,
    pub acceptable: Vec<(usize, Outcome)>,
    pub elapsed: u64,
    pub mailbox_at_completion: Vec<CV>,
}

fn canon_in(sim: &Sim, w: usize, v: &quiver_core::value::Value) -> CV {
    let ex = sim.workers[w].verif_executor();
    let program = sim.env.get_program();
    qv::canon(v, program, program.get_constants(), &|i| ex.get_heap_binary(i).map(|d| d.to_vec()), &|i| program.get_builtins().get(i).map(|b| b.name.clone()).unwrap_or_default())
}

fn canon_ext(sim: &Sim, v: &quiver_core::value::Value, heap: &[Vec<u8>]) -> CV {
    let program = sim.env.get_program();
    qv::canon_extracted(v, heap, program, program.get_constants(), &|i| program.get_builtins().get(i).map(|b| b.name.clone()).unwrap_or_default())
}

impl SelMon {
    fn host(&self, sim: &Sim) -> Option<usize> { sim.host_of(self.root) }
}

pub struct SharedMon(pub Rc<RefCell<SelMon>>);

impl StepObserver for SharedMon {
    fn before_worker_step(&mut self, sim: &Sim, w: usize) {
        let mut m = self.0.borrow_mut();
        if m.host(sim) != Some(w) { m.snap = None; return; }
        let Some(p) = sim.process(m.root) else { m.snap = None; return; };
        let mut mailbox: Vec<CV> = p.mailbox.iter().map(|v| canon_in(sim, w, v)).collect();
        let mut known: BTreeMap<ProcessId, Result<CV, quiver_core::error::Error>> = BTreeMap::new();
        for (pid, v) in &p.awaiting { if let Some(v) = v { known.insert(*pid, Ok(canon_in(sim, w, v))); } }
        // commands the step will consume first
        for c in sim.visible_cmds(w) {
            match c {
                Command::DeliverMessage { target, message, heap } if target == m.root => mailbox.push(canon_ext(sim, &message, &heap)),
                Command::UpdateAwaitResults { awaiter, results } if awaiter == m.root => {
                    for (pid, r) in results {
                        match r { Some(Ok((v, heap))) => { known.insert(pid, Ok(canon_ext(sim, &v, &heap))); } Some(Err(e)) => { m.learned_failures.insert(pid, e.clone()); known.insert(pid, Err(e)); } None => {} }
                    }
                }
                _ => {}
            }
        }
        for (pid, e) in &m.learned_failures { known.entry(*pid).or_insert(Err(e.clone())); }
        let sel = p.select_state.as_ref();
        m.snap = Some(Snap {
            had_select: sel.is_some(),
            receiving: sel.map(|s| s.receiving.is_some()).unwrap_or(false),
            start_time: sel.and_then(|s| s.start_time),
            mailbox, known,
            failed: matches!(p.result, Some(Err(_))),
            clock: sim.clock,
            source_count: sel.map(|s| s.sources.len()).unwrap_or(0),
        });
    }

    fn after_worker_step(&mut self, sim: &Sim, w: usize) {
        let mut m = self.0.borrow_mut();
        if m.completed.is_some() { return; }
        let Some(snap) = m.snap.take() else { return };
        if m.host(sim) != Some(w) { return; }
        let Some(p) = sim.process(m.root) else { return };
        // a co-located process that failed in this step notifies registered awaiters directly
        let mut newly_failed_local: Vec<(ProcessId, quiver_core::error::Error)> = vec![];
        for pid in sim.workers[w].verif_executor().verif_sched_view().processes {
            if pid == m.root || m.seen_failed.contains(&pid) { continue; }
            if let Some(hp) = sim.process(pid) { if let Some(Err(e)) = &hp.result { m.seen_failed.push(pid); if p.awaiting.contains_key(&pid) { newly_failed_local.push((pid, e.clone())); } } }
        }
        for (pid, e) in &newly_failed_local { m.learned_failures.insert(*pid, e.clone()); }
        if !snap.had_select { return; }
        if snap.source_count != m.sources.len() { return; } // not the select under test (a drain receive)
        let now_failed = matches!(p.result, Some(Err(_)));
        let completed_ok = p.select_state.is_none() && !now_failed;
        if !(completed_ok || (now_failed && !snap.failed)) { return; }
        // map helpers to pids
        if m.helper_pid.is_empty() {
            let names = logical_names(sim, m.root);
            for (pid, n) in &names { if let Some(k) = n.strip_prefix("r/") { if let Ok(k) = k.parse::<usize>() { m.helper_pid.insert(k, *pid); } } }
        }
        let mut known: BTreeMap<usize, Result<CV, quiver_core::error::Error>> = m.helper_pid.iter().filter_map(|(h, pid)| snap.known.get(pid).map(|r| (*h, r.clone()))).collect();
        for (h, pid) in &m.helper_pid { if let Some(e) = m.learned_failures.get(pid) { known.entry(*h).or_insert(Err(e.clone())); } }
        let elapsed = snap.clock.saturating_sub(snap.start_time.unwrap_or(snap.clock));
        let acceptable = model_select(&m.sources, &snap.mailbox, &known, elapsed);
        let outcome = if completed_ok {
            match p.stack.last() { Some(v) => Outcome::Value(canon_in(sim, w, v)), None => { m.violations.push(("no-result".into(), "select completed with an empty stack".into())); return; } }
        } else {
            match &p.result { Some(Err(e)) => Outcome::Fail(e.clone()), _ => unreachable!() }
        };
        // situations
        let ready_count = {
            let mut n = 0;
            for s in &m.sources { let r = match s { Src::Await(h) => known.contains_key(h), Src::Timeout(d) => elapsed >= *d, _ => snap.mailbox.iter().any(|x| src_accepts(s, x)) }; if r { n += 1; } }
            n
        };
        if ready_count >= 2 { *m.situations.entry("two_or_more_sources_ready_at_completion").or_insert(0) += 1; }
        if snap.receiving { *m.situations.entry("completed_on_reentry_after_filter_call").or_insert(0) += 1; }
        if snap.receiving { if let Some((i, _)) = acceptable.first() { if !matches!(m.sources[*i], Src::Filter(_)) { *m.situations.entry("higher_priority_source_preempted_running_filter").or_insert(0) += 1; } } }
        if let Some((i, _)) = acceptable.first() {
            let key: &'static str = match (&m.sources[*i], i) { (Src::Await(_), _) => "completed_by_await", (Src::Timeout(_), _) => "completed_by_timeout", (Src::Filter(_), _) => "completed_by_filter_receive", _ => "completed_by_type_receive" };
            *m.situations.entry(key).or_insert(0) += 1;
            if *i > 0 { *m.situations.entry("completed_by_non_first_source").or_insert(0) += 1; }
        }
        if matches!(outcome, Outcome::Fail(_)) { *m.situations.entry("select_propagated_failure").or_insert(0) += 1; }
        if !acceptable.iter().any(|(_, o)| *o == outcome) {
            let sig = match (&outcome, acceptable.first()) {
                (Outcome::Value(v), _) if v.is_nil() && m.sources.iter().any(|s| matches!(s, Src::Timeout(d) if elapsed < *d)) && !acceptable.iter().any(|(_, o)| matches!(o, Outcome::Value(x) if x.is_nil())) => "timeout-early",
                (Outcome::Fail(_), Some(_)) => "failure-preempted-ready-source",
                (Outcome::Fail(_), None) => "failure-without-known-failed-source",
                (_, Some((_, Outcome::Value(w)))) if msg_parts(w).is_some() => "wrong-message-or-priority",
                (_, Some(_)) => "priority",
                (_, None) => "completed-with-no-ready-source",
            };
            let what = format!("select {:?} completed with {:?} at elapsed={}ms; state at that moment: mailbox={:?} known-results={:?}; the statement allows {:?}",
                m.sources, show_outcome(&outcome), elapsed, snap.mailbox.iter().map(|x| x.show()).collect::<Vec<_>>(), known.iter().map(|(h, r)| (h + 1, r.as_ref().map(|v| v.show()).map_err(|e| format!("{:?}", e)))).collect::<Vec<_>>(),
                acceptable.iter().map(|(i, o)| (i, show_outcome(o))).collect::<Vec<_>>());
            m.violations.push((sig.into(), what));
        }
        m.completed = Some(Completed { outcome, acceptable, elapsed, mailbox_at_completion: snap.mailbox });
    }
}

fn show_outcome(o: &Outcome) -> String { match o { Outcome::Value(v) => v.show(), Outcome::Fail(e) => format!("FAIL {:?}", e) } }

/// Environment layer: every completion fact the environment received for an awaiter must be forwarded.
pub fn env_fact_conservation(sim: &Sim) -> Result<u64, String> {
    sim.with_log(|log| {
        let mut received: Vec<(ProcessId, ProcessId, usize)> = vec![]; // awaiter, pid, at
        let mut forwarded: Vec<(ProcessId, ProcessId, usize)> = vec![];
        for e in log {
            match (&e.item, e.stage) {
                (Item::Evt(Event::ProcessResults { awaiter, results }), Stage::Consumed) => for (pid, r) in results { if r.is_some() { received.push((*awaiter, *pid, e.at)); } },
                (Item::Cmd(Command::UpdateAwaitResults { awaiter, results }), Stage::Sent) => for (pid, r) in results { if r.is_some() { forwarded.push((*awaiter, *pid, e.at)); } },
                _ => {}
            }
        }
        for (a, p, at) in &received {
            if !forwarded.iter().any(|(fa, fp, fat)| fa == a && fp == p && fat >= at) {
                return Err(format!("the environment received the completion of process {} for awaiter {} (at step {}) and never forwarded it", p, a, at));
            }
        }
        Ok(received.len() as u64)
    })
}

pub struct C05Run {
    pub end: RunEnd,
    pub sim: Sim,
    pub mon: Rc<RefCell<SelMon>>,
    pub root_fate: Option<Fate>,
}

pub fn run_one(sc: &SelScen, bc: &quiver_core::bytecode::Bytecode, b: &qv::Builtins, cfg: &SchedCfg, heap_monitor: bool, ticks: bool) -> C05Run {
    let mut sim = Sim::new(cfg.workers, b, false, None);
    sim.heap_monitor = heap_monitor;
    if ticks { sim.tick_permille = 120; sim.tick_choices = vec![0, 1, 1, 2, 3, 9, 10, 11, 49, 50, 51]; }
    let st = start_program(&mut sim, bc.clone()).expect("start");
    let mon = Rc::new(RefCell::new(SelMon { root: st.pid, sources: sc.sources.clone(), ..Default::default() }));
    sim.observer = Some(Box::new(SharedMon(mon.clone())));
    let mut rng = Rng::new(cfg.seed);
    // Directed family (one schedule in four): hold everything back while the selecting process runs
    // until it is in the middle of a filter call, then make every pending command/event visible at
    // once — "arrivals between re-entries", including the batch that makes two sources ready.
    let directed = cfg.seed % 4 == 1;
    let root = st.pid;
    let mut end = if directed {
        let mut hit = false;
        let e = sim.run(Strategy::StarveEnv, QuantumPolicy::Fixed(1), &mut rng, 100_000, &|| false, &mut |s: &mut Sim| {
            let mid = s.process(root).and_then(|p| p.select_state.as_ref()).map(|x| x.receiving.is_some()).unwrap_or(false);
            if mid { hit = true; }
            mid
        });
        if hit { mon.borrow_mut().situations.insert("directed_burst_released_mid_filter", 1); }
        e
    } else { RunEnd::Stopped };
    if end == RunEnd::Stopped {
        let strat = if directed { Strategy::Eager } else { cfg.strat };
        end = sim.run(strat, cfg.qp, &mut rng, 100_000, &|| false, &mut |_s| false);
    }
    if end == RunEnd::Quiescent && heap_monitor { sim.settle(); }
    sim.observer = None;
    let root_fate = fates(&sim, st.pid).get("r").cloned();
    C05Run { end, sim, mon, root_fate }
}

fn witness(src: &str, cfg: &SchedCfg, sim: &Sim) -> serde_json::Value {
    json!({"source": src, "workers": cfg.workers, "strategy": format!("{:?}", cfg.strat), "quantum": format!("{:?}", cfg.qp), "sched_seed": cfg.seed,
           "actions": sim.actions.iter().map(act_to_json).collect::<Vec<_>>()})
}

pub fn check(rep: &Report) {
    let quick = rep.quick();
    let n_scen = if quick { 5000 } else { 80000 };
    let n_sched = if quick { 16 } else { 60 };
    let b = qv::builtins();
    crate::pool::run_indexed(n_scen, 256, |i| {
        let mut rng = Rng::derive(rep.seed, "C05", 0, i as u64);
        let sc = gen_sel(&mut rng);
        if !sc.eventually_ready() { rep.count("generator_rejects_never_ready", 1); return; }
        let src = sc.emit();
        let bc = match compile_entry(&src, &b) {
            Ok(bc) => bc,
            Err(e) => { rep.count("generator_rejects_compile", 1); rep.inconclusive(json!({"why": "scenario did not compile", "err": format!("{:?}", e).chars().take(160).collect::<String>(), "src": src})); return; }
        };
        rep.distinct(crate::rng::fnv64(src.as_bytes()));
        rep.count("scenarios", 1);
        rep.count(&format!("sources={}", sc.sources.len()), 1);
        if rep.want_sample() { rep.sample(json!({"select_scenario_source": src})); }
        let mut scheds = sched_variants(&mut rng, n_sched);
        // (the worker-layer monitor needs every instruction boundary of the selecting process, which
        // is pid 0 on worker 0, to be a between-step point: quantum 1 there on every schedule)
        for (k, s) in scheds.iter_mut().enumerate() { s.qp = if k % 2 == 0 { QuantumPolicy::Fixed(1) } else { QuantumPolicy::PinOne(0) }; }
        for (k, cfg) in scheds.iter().enumerate() {
            let run = run_one(&sc, &bc, &b, cfg, false, k % 3 != 0);
            rep.eval(1);
            rep.set_insert("schedule_hashes", run.sim.schedule_hash());
            let mon = run.mon.borrow();
            for (k, v) in &mon.situations { rep.count(k, *v); }
            let viol = |sig: &str, what: String| rep.violation(Violation { signature: format!("C05:{}", sig), what, witness: witness(&src, cfg, &run.sim) });
            match &run.end {
                RunEnd::Quiescent => {}
                RunEnd::StepCap => { rep.inconclusive(json!({"why": "step cap"})); continue; }
                RunEnd::Trouble(t) => { viol(&format!("trouble:{}", trouble_sig(t)), format!("{:?}", t)); continue; }
                RunEnd::Stopped => {}
            }
            for (sig, what) in &mon.violations { viol(sig, what.clone()); }
            // environment layer
            match env_fact_conservation(&run.sim) { Ok(n) => rep.count("completion_facts_forwarded", n), Err(e) => { viol("env-drops-completion-fact", e); } }
            // the select must have completed (a source is eventually ready in every schedule)
            let Some(done) = &mon.completed else {
                viol("never-completes", format!("select {:?} never completed although a source is ready at quiescence; root fate {:?}", sc.sources, run.root_fate));
                continue;
            };
            rep.count("selects_checked_against_model", 1);
            if done.elapsed > 0 { rep.count("completed_with_clock_advanced", 1); }
            // leftovers: drained ++ mailbox == arrival order minus the taken message
            if let (Outcome::Value(sel), Some(Fate::Done(CV::Tuple(None, fs)))) = (&done.outcome, &run.root_fate) {
                let arrival: Vec<CV> = run.sim.with_log(|log| log.iter().filter_map(|e| match (&e.item, e.stage) {
                    (Item::Cmd(Command::DeliverMessage { target, message, heap }), Stage::Consumed) if *target == mon.root => Some(canon_ext(&run.sim, message, heap)),
                    _ => None }).collect());
                if fs.first().map(|f| &f.1) != Some(sel) { viol("result-mismatch", format!("select yielded {} but the process reports {:?}", sel.show(), fs.first().map(|f| f.1.show()))); continue; }
                let drained: Vec<CV> = fs.iter().skip(1).map(|f| f.1.clone()).collect();
                let left = crate::c04::mailbox_of(&run.sim, mon.root);
                let mut want = arrival.clone();
                if msg_parts(sel).is_some() { if let Some(ix) = want.iter().position(|m| m == sel) { want.remove(ix); } else { viol("taken-message-never-arrived", format!("select yielded {} which never arrived", sel.show())); continue; } }
                let got: Vec<CV> = drained.iter().chain(left.iter()).cloned().collect();
                if got != want {
                    viol("leftovers-lost-or-reordered", format!("after the select took {}, later receives + mailbox = {:?} but arrival order minus the taken message = {:?}", sel.show(), got.iter().map(|m| m.show()).collect::<Vec<_>>(), want.iter().map(|m| m.show()).collect::<Vec<_>>()));
                } else { rep.count("leftover_sequences_checked", 1); if !want.is_empty() { rep.count("leftover_sequences_nonempty", 1); } }
            } else if let (Outcome::Fail(e), Some(f)) = (&done.outcome, &run.root_fate) {
                if *f != Fate::Failed(e.clone()) { viol("failure-not-final", format!("select propagated {:?} but the process ended as {:?}", e, f)); }
            } else if let (Outcome::Value(sel), Some(Fate::Failed(e))) = (&done.outcome, &run.root_fate) {
                viol("killed-after-select-completed", format!("the select completed normally with {} — it is over — but the process was later terminated with {:?} (the error of a process it is no longer awaiting)", sel.show(), e));
            } else if matches!(run.root_fate, Some(Fate::Running)) {
                viol("drain-hung", format!("select completed with {} but the process never finished draining its mailbox", show_outcome(&done.outcome)));
            }
        }
    });
}

pub const RULE: &str = "generated selects with 1-4 sources drawn from {await helper, type-only receive (I / B / any), pure filter receive (payload==k, seq>=k, from==f, payload<k), timeout in {0,1,3,10,50} ms} in random written order; 1-3 helper processes that send unique messages and then finish or fail; SimNet schedules with quantum 1 on half of them and random virtual-clock ticks around the timeout values. Monitor (worker layer): at the step in which the select completes, the state known to the process (mailbox incl. commands consumed at the top of that step, known await results, elapsed time since the select's first evaluation) is fed to a 40-line model that returns the set of outcomes the statement allows; afterwards the process drains its mailbox and 'later receives ++ mailbox' must equal the observed arrival order minus the taken message. Environment layer: every completion fact the environment consumed must be forwarded to the awaiter's worker. distinct_nontrivial = distinct scenario sources whose select is eventually ready in every schedule";
pub const ASSUME: &[&str] = &[
    "filters are pure, so the model may re-evaluate them (cursor state is irrelevant to the model by construction)",
    "a timeout is treated as possibly ready at elapsed == d and definitely ready at elapsed > d (the statement only bounds it from below)",
    "SimNet interleaving model (DESIGN §2.3)",
];
pub const SITUATIONS: &[&str] = &["directed_burst_released_mid_filter", "two_or_more_sources_ready_at_completion", "completed_on_reentry_after_filter_call", "higher_priority_source_preempted_running_filter", "completed_by_await", "completed_by_timeout", "completed_by_filter_receive", "completed_by_type_receive", "completed_by_non_first_source", "select_propagated_failure", "completed_with_clock_advanced", "leftover_sequences_nonempty"];
