//! C06 — binary heap accounting: no leak, no premature free, no aliasing damage.
use crate::c03::{sched_variants, trouble_sig, SchedCfg};
use crate::procsys::*;
use crate::qv::{self, CV};
use crate::report::{Report, Violation};
use crate::rng::Rng;
use crate::scen::*;
use crate::simnet::*;
use serde_json::json;
use std::collections::BTreeMap;

/// A generated "binary flow" program with its expected result.
pub struct BinProg {
    /// same program, but the root function returns 0: everything it held becomes unreachable
    pub src_drop: String,
    pub src: String,
    pub expect: CV,
    pub flows: Vec<&'static str>,
}

fn hexlit(b: &[u8]) -> String { format!("0x{}", b.iter().map(|x| format!("{:02x}", x)).collect::<String>()) }
fn cvb(b: &[u8]) -> CV { CV::Bin(b.to_vec()) }
fn tup(v: Vec<CV>) -> CV { CV::Tuple(None, v.into_iter().map(|x| (None, x)).collect()) }

pub fn gen_binprog(rng: &mut Rng) -> BinProg {
    let mut steps: Vec<String> = vec![];
    let mut bins: Vec<(String, Vec<u8>)> = vec![];
    let nb = 2 + rng.below(5);
    for i in 0..nb {
        let name = format!("b{}", i);
        let (expr, bytes) = match if bins.is_empty() { 0 } else { rng.below(7) } {
            0 | 1 => { let n1 = 1 + rng.below(4); let n2 = rng.below(3); let a = rng.bytes(n1); let b = rng.bytes(n2); let mut c = a.clone(); c.extend(&b); (format!("[{}, {}] __binary_concat__", hexlit(&a), hexlit(&b)), c) }
            2 => { let (n, b) = rng.pick(&bins).clone(); let (n2, b2) = rng.pick(&bins).clone(); let mut c = b.clone(); c.extend(&b2); (format!("[{}, {}] __binary_concat__", n, n2), c) }
            3 => { let (n, b) = rng.pick(&bins).clone(); let s = rng.below(b.len() + 1); let e = s + rng.below(b.len() - s + 1); (format!("[{}, {}, {}] __binary_slice__", n, s, e), b[s..e].to_vec()) }
            4 => { let (n, b) = rng.pick(&bins).clone(); let k = rng.below(4); (format!("[{}, {}] __binary_repeat__", n, k), b.repeat(k)) }
            5 => { let k = rng.below(6); (format!("{} __binary_new__", k), vec![0u8; k]) }
            _ => { let (n, b) = rng.pick(&bins).clone(); (format!("{} __binary_not__", n), b.iter().map(|x| !x).collect()) }
        };
        steps.push(format!("{} = {}", name, expr));
        bins.push((name, bytes));
    }
    let mut results: Vec<(String, CV)> = vec![];
    let mut flows = vec![];
    let nf = 1 + rng.below(4);
    for j in 0..nf {
        let pick = |rng: &mut Rng| rng.pick(&bins).clone();
        match rng.below(11) {
            0 => {
                // spawn with k captured binaries
                let k = 1 + rng.below(3);
                let cs: Vec<(String, Vec<u8>)> = (0..k).map(|_| pick(rng)).collect();
                steps.push(format!("p{} = @#{{ [{}] }}", j, cs.iter().map(|c| c.0.clone()).collect::<Vec<_>>().join(", ")));
                steps.push(format!("r{} = !p{}", j, j));
                results.push((format!("r{}", j), tup(cs.iter().map(|c| cvb(&c.1)).collect())));
                flows.push("spawn_captures");
            }
            1 => {
                // spawn with a binary argument and captured binaries
                let a = pick(rng); let c = pick(rng); let d = pick(rng);
                steps.push(format!("p{} = {} @#'bin {{ [$, {}, {}, $ __binary_length__] }}", j, a.0, c.0, d.0));
                steps.push(format!("r{} = !p{}", j, j));
                results.push((format!("r{}", j), tup(vec![cvb(&a.1), cvb(&c.1), cvb(&d.1), CV::int(a.1.len() as i64)])));
                flows.push("spawn_arg_and_captures");
            }
            2 => {
                // tuple argument holding two binaries, nested
                let a = pick(rng); let c = pick(rng);
                steps.push(format!("p{} = [{}, T[{}]] @#['bin, T['bin]] {{ [$.1.0, $.0] }}", j, a.0, c.0));
                steps.push(format!("r{} = !p{}", j, j));
                results.push((format!("r{}", j), tup(vec![cvb(&c.1), cvb(&a.1)])));
                flows.push("spawn_tuple_arg");
            }
            3 => {
                // echo through a message
                let a = pick(rng);
                steps.push(format!("p{} = @#{{ m = !'bin, [m, m, m __binary_length__] }}", j));
                steps.push(format!("{} p{}", a.0, j));
                steps.push(format!("r{} = !p{}", j, j));
                results.push((format!("r{}", j), tup(vec![cvb(&a.1), cvb(&a.1), CV::int(a.1.len() as i64)])));
                flows.push("message_echo");
            }
            4 => {
                // tuple message with two binaries, swapped back
                let a = pick(rng); let c = pick(rng);
                steps.push(format!("p{} = @#{{ m = !#['bin, 'bin], [m.1, m.0] }}", j));
                steps.push(format!("[{}, {}] p{}", a.0, c.0, j));
                steps.push(format!("r{} = !p{}", j, j));
                results.push((format!("r{}", j), tup(vec![cvb(&c.1), cvb(&a.1)])));
                flows.push("message_tuple");
            }
            5 => {
                // filter receive on length: takes the first message whose length matches, then drains the rest in order
                let ms: Vec<(String, Vec<u8>)> = (0..3).map(|_| pick(rng)).collect();
                let want = ms[rng.below(3)].1.len();
                let first = ms.iter().position(|m| m.1.len() == want).unwrap();
                steps.push(format!("p{} = @#{{ x = ! [#'bin {{ [$ __binary_length__, {}] __integer_compare__ =0 }}], y = !'bin, z = !'bin, [x, y, z] }}", j, want));
                for m in &ms { steps.push(format!("{} p{}", m.0, j)); }
                steps.push(format!("r{} = !p{}", j, j));
                let mut rest: Vec<CV> = ms.iter().enumerate().filter(|(k, _)| *k != first).map(|(_, m)| cvb(&m.1)).collect();
                let mut out = vec![cvb(&ms[first].1)];
                out.append(&mut rest);
                results.push((format!("r{}", j), tup(out)));
                flows.push("filter_receive");
            }
            6 => {
                // messages left in the mailbox of a finished process, plus a closure capturing a binary as select source
                let a = pick(rng); let c = pick(rng);
                steps.push(format!("p{} = @#{{ m = !'bin, m }}", j));
                steps.push(format!("{} p{}", a.0, j));
                steps.push(format!("{} p{}", c.0, j));
                steps.push(format!("{} p{}", a.0, j));
                steps.push(format!("r{} = !p{}", j, j));
                results.push((format!("r{}", j), cvb(&a.1)));
                flows.push("mailbox_leftovers");
            }
            7 => {
                // the same process awaited twice (the awaiter's result slot is written twice)
                let a = pick(rng); let c = pick(rng);
                steps.push(format!("p{} = @#{{ [{}, {}] }}", j, a.0, c.0));
                steps.push(format!("r{}a = !p{}", j, j));
                steps.push(format!("r{}b = !p{}", j, j));
                steps.push(format!("r{} = [r{}a, r{}b]", j, j, j));
                let t = tup(vec![cvb(&a.1), cvb(&c.1)]);
                results.push((format!("r{}", j), tup(vec![t.clone(), t])));
                flows.push("await_twice");
            }
            8 => {
                // one process awaited by two other processes and by the root
                let a = pick(rng);
                steps.push(format!("p{} = @#{{ [{}, 0x00] __binary_concat__ }}", j, a.0));
                steps.push(format!("q{}a = @#{{ v = !p{}, [v, v __binary_length__] }}", j, j));
                steps.push(format!("q{}b = @#{{ v = !p{}, v }}", j, j));
                steps.push(format!("r{} = [!q{}a, !q{}b, !p{}]", j, j, j, j));
                let mut v = a.1.clone(); v.push(0);
                results.push((format!("r{}", j), tup(vec![tup(vec![cvb(&v), CV::int(v.len() as i64)]), cvb(&v), cvb(&v)])));
                flows.push("several_awaiters");
            }
            9 => {
                // race two processes and a timeout; the losers' results arrive after the select is over
                let a = pick(rng); let c = pick(rng);
                steps.push(format!("p{}a = @#{{ {} }}", j, a.0));
                steps.push(format!("p{}b = @#{{ {} }}", j, c.0));
                steps.push(format!("w{} = ! [&p{}a, &p{}b, 100000]", j, j, j));
                steps.push(format!("r{} = [!p{}a, !p{}b, w{} __binary_length__ {{ ={} => 1 | ={} => 1 | 0 }}]", j, j, j, j, a.1.len(), c.1.len()));
                results.push((format!("r{}", j), tup(vec![cvb(&a.1), cvb(&c.1), CV::int(1)])));
                flows.push("race_then_await_losers");
            }
            _ => {
                // select whose source list holds a closure capturing a binary; a filter that inspects it
                let a = pick(rng); let c = pick(rng);
                steps.push(format!("p{} = {} @#'bin {{ k = $, x = ! [#'bin {{ [[$, k] __binary_concat__ __binary_length__, {}] __integer_compare__ =0 }}], [x, k] }}", j, a.0, a.1.len() + c.1.len()));
                steps.push(format!("{} p{}", c.0, j));
                steps.push(format!("r{} = !p{}", j, j));
                results.push((format!("r{}", j), tup(vec![cvb(&c.1), cvb(&a.1)])));
                flows.push("closure_source_filter");
            }
        }
    }
    // shadow / drop some bindings inside a block, then read everything back
    if rng.chance(1, 2) {
        let a = bins[0].clone();
        steps.push(format!("d0 = {{ t = [{}, 0xff] __binary_concat__, t __binary_length__ }}", a.0));
        results.push(("d0".into(), CV::int(a.1.len() as i64 + 1)));
        flows.push("block_scoped_drop");
    }
    let mut fields: Vec<String> = results.iter().map(|r| r.0.clone()).collect();
    let mut exp: Vec<CV> = results.iter().map(|r| r.1.clone()).collect();
    for (n, b) in &bins { fields.push(n.clone()); exp.push(cvb(b)); }
    let mut steps_drop = steps.clone();
    steps_drop.push(format!("keep = [{}]", fields.join(", ")));
    steps_drop.push("0".into());
    steps.push(format!("[{}]", fields.join(", ")));
    BinProg { src_drop: format!("main = #{{\n  {}\n}},\nmain\n", steps_drop.join(",\n  ")), src: format!("main = #{{\n  {}\n}},\nmain\n", steps.join(",\n  ")), expect: tup(exp), flows }
}

fn heap_witness(src: &str, cfg: &SchedCfg, sim: &Sim) -> serde_json::Value {
    json!({"source": src, "workers": cfg.workers, "strategy": format!("{:?}", cfg.strat), "quantum": format!("{:?}", cfg.qp), "sched_seed": cfg.seed,
           "actions": sim.actions.iter().map(act_to_json).collect::<Vec<_>>()})
}

fn run_monitored(bc: &quiver_core::bytecode::Bytecode, b: &qv::Builtins, sc: &SchedCfg) -> (RunEnd, Sim, usize, Option<RootResult>) {
    let mut sim = Sim::new(sc.workers, b, false, None);
    sim.heap_monitor = true;
    let st = start_program(&mut sim, bc.clone()).expect("start");
    let mut rng = Rng::new(sc.seed);
    let end = sim.run(sc.strat, sc.qp, &mut rng, 200_000, &|| false, &mut |_s| false);
    if end == RunEnd::Quiescent { sim.settle(); sim.settle(); }
    let root = poll_root(&mut sim, &st);
    (end, sim, st.pid, root)
}

fn record_obs(rep: &Report, sim: &Sim) {
    rep.count("heap_checks_after_worker_steps", sim.heap_checks);
    const KINDS: [&str; 8] = ["root_occurrences_stack", "root_occurrences_locals", "root_occurrences_mailbox", "root_occurrences_result", "root_occurrences_select_sources", "root_occurrences_select_receiving", "root_occurrences_awaiting", "root_occurrences_constant_cache"];
    for k in 0..8 { rep.count(KINDS[k], sim.heap_roots[k]); }
    rep.count("exact_multiplicity_mismatches(early warning only)", sim.heap_obs_max.exact_mismatch as u64);
    if sim.heap_obs_max.freed > 0 { rep.count("runs_with_slot_reclaimed", 1); }
}

pub fn check(rep: &Report) {
    let quick = rep.quick();
    let b = qv::builtins();
    // (1) binary flow programs
    let n_prog = if quick { 2500 } else { 40000 };
    let n_sched = if quick { 8 } else { 30 };
    crate::pool::run_indexed(n_prog, 256, |i| {
        let mut rng = Rng::derive(rep.seed, "C06bp", 0, i as u64);
        let bp = gen_binprog(&mut rng);
        let bc = match compile_entry(&bp.src, &b) {
            Ok(bc) => bc,
            Err(e) => { rep.count("generator_rejects_compile", 1); rep.inconclusive(json!({"why": "binprog did not compile", "err": format!("{:?}", e).chars().take(200).collect::<String>(), "src": bp.src})); return; }
        };
        rep.distinct(crate::rng::fnv64(bp.src.as_bytes()));
        for f in &bp.flows { rep.count(&format!("flow={}", f), 1); }
        if rep.want_sample() { rep.sample(json!({"binary_flow_program": bp.src, "expected": bp.expect.show()})); }
        let mut scheds = sched_variants(&mut rng, n_sched);
        for (k, s) in scheds.iter_mut().enumerate() { if k % 2 == 1 { s.qp = QuantumPolicy::Fixed(*rng.pick(&[1usize, 1, 2, 3])); } }
        for cfg in &scheds {
            let (end, sim, root_pid, root) = run_monitored(&bc, &b, cfg);
            rep.eval(1);
            record_obs(rep, &sim);
            let viol = |sig: String, what: String| rep.violation(Violation { signature: sig, what, witness: heap_witness(&bp.src, cfg, &sim) });
            if let Some((w, hv)) = &sim.heap_violation {
                viol(format!("C06:{}:{}", hv.kind, bp.flows.first().copied().unwrap_or("none")), format!("worker {} after step {}: {} (flows: {:?})", w, sim.actions.len(), hv.detail, bp.flows));
                continue;
            }
            match &end {
                RunEnd::Quiescent => {}
                RunEnd::StepCap => { rep.inconclusive(json!({"why": "step cap"})); continue; }
                RunEnd::Trouble(t) => { viol(format!("C06:trouble:{}", trouble_sig(t)), format!("{:?}", t)); continue; }
                RunEnd::Stopped => {}
            }
            // drop variant on the same schedule: only heap accounting is judged
            if let Ok(bcd) = compile_entry(&bp.src_drop, &b) {
                let (endd, simd, _, _) = run_monitored(&bcd, &b, cfg);
                rep.eval(1);
                record_obs(rep, &simd);
                rep.count("drop_variant_runs", 1);
                if let Some((w, hv)) = &simd.heap_violation {
                    rep.violation(Violation { signature: format!("C06:{}:after-drop", hv.kind), what: format!("worker {} after step {}: {} (flows: {:?}; the root function returns a scalar, so all its binaries are dropped)", w, simd.actions.len(), hv.detail, bp.flows), witness: heap_witness(&bp.src_drop, cfg, &simd) });
                } else if let RunEnd::Trouble(t) = &endd {
                    rep.violation(Violation { signature: format!("C06:trouble:{}", trouble_sig(t)), what: format!("{:?}", t), witness: heap_witness(&bp.src_drop, cfg, &simd) });
                }
            }
            match root.map(|r| canon_root(&sim, &r, root_pid)) {
                Some(Fate::Done(v)) => { if v != bp.expect { viol(format!("C06:content:{}", first_bad_flow(&v, &bp)), format!("binaries read back wrong: got {} want {}", v.show(), bp.expect.show())); } else { rep.count("programs_read_back_exactly", 1); } }
                Some(Fate::Failed(e)) => viol("C06:program-failed".into(), format!("{:?}", e)),
                _ => viol("C06:hang".into(), "root did not finish".into()),
            }
        }
    });
    select_workload(rep, &b);
    // (2) message-passing scenarios with binaries (confluent, fan-in and failing), monitor on
    let n_scen = if quick { 1500 } else { 25000 };
    let n_sched2 = if quick { 8 } else { 30 };
    crate::pool::run_indexed(n_scen, 256, |i| {
        let mut rng = Rng::derive(rep.seed, "C06sc", 0, i as u64);
        let cfg = GenCfg { max_nodes: 7, max_depth: 3, confluent: i % 3 != 0, fail_permille: if i % 5 == 0 { 400 } else { 0 }, binaries: true };
        let sc = generate(&mut rng, &cfg);
        let src = sc.emit();
        let Ok(bc) = compile_entry(&src, &b) else { rep.count("generator_rejects_compile", 1); return; };
        let Ok(model) = std::panic::catch_unwind(|| run_model(&sc)) else { return; };
        let all_done = model.fates.values().all(|f| matches!(f, ModelFate::Done(_)));
        let names = sc.names();
        rep.count("scenario_workloads", 1);
        let scheds = sched_variants(&mut rng, n_sched2);
        for cfgs in &scheds {
            let (end, sim, _root_pid, _root) = run_monitored(&bc, &b, cfgs);
            rep.eval(1);
            record_obs(rep, &sim);
            let viol = |sig: String, what: String| rep.violation(Violation { signature: sig, what, witness: heap_witness(&src, cfgs, &sim) });
            if let Some((w, hv)) = &sim.heap_violation { viol(format!("C06:{}:scenario", hv.kind), format!("worker {} after step {}: {}", w, sim.actions.len(), hv.detail)); continue; }
            if let RunEnd::Trouble(t) = &end { viol(format!("C06:trouble:{}", trouble_sig(t)), format!("{:?}", t)); continue; }
            if end == RunEnd::Quiescent && all_done && cfg.confluent {
                let f = fates(&sim, 0);
                let expect: BTreeMap<String, CV> = model.fates.iter().map(|(n, f)| (names[n].clone(), match f { ModelFate::Done(v) => v.to_cv(&names), _ => unreachable!() })).collect();
                for (name, want) in &expect { if let Some(Fate::Done(g)) = f.get(name) { if g != want { viol("C06:content:scenario".into(), format!("{}: {} want {}", name, g.show(), want.show())); } } }
            }
        }
    });
}

/// (3) select scenarios of C05 (filters, awaits, timeouts, failing helpers, binary messages) with the
/// heap monitor on and arbitrary quanta; only heap accounting is judged here.
fn select_workload(rep: &Report, b: &qv::Builtins) {
    let quick = rep.quick();
    let n = if quick { 3000 } else { 40000 };
    let n_sched = if quick { 8 } else { 30 };
    crate::pool::run_indexed(n, 256, |i| {
        let mut rng = Rng::derive(rep.seed, "C06sel", 0, i as u64);
        let sc = crate::c05::gen_sel(&mut rng);
        if !sc.eventually_ready() { return; }
        let src = sc.emit_opts(i % 2 == 1);
        let Ok(bc) = compile_entry(&src, b) else { return; };
        rep.count("select_workloads", 1);
        if i % 2 == 1 { rep.count("select_workloads_drop_variant", 1); }
        let scheds = sched_variants(&mut rng, n_sched);
        for (k, cfg) in scheds.iter().enumerate() {
            let run = crate::c05::run_one(&sc, &bc, b, cfg, true, k % 2 == 0);
            rep.eval(1);
            record_obs(rep, &run.sim);
            let viol = |sig: String, what: String| rep.violation(Violation { signature: sig, what, witness: heap_witness(&src, cfg, &run.sim) });
            if let Some((w, hv)) = &run.sim.heap_violation { viol(format!("C06:{}:select", hv.kind), format!("worker {} after step {}: {}", w, run.sim.actions.len(), hv.detail)); continue; }
            if let RunEnd::Trouble(t) = &run.end { viol(format!("C06:trouble:{}", trouble_sig(t)), format!("{:?}", t)); }
        }
    });
}

fn first_bad_flow(v: &CV, bp: &BinProg) -> String {
    if let (CV::Tuple(_, g), CV::Tuple(_, w)) = (v, &bp.expect) {
        for (k, ((_, a), (_, b))) in g.iter().zip(w.iter()).enumerate() { if a != b { return bp.flows.get(k).copied().unwrap_or("binding").to_string(); } }
    }
    "shape".into()
}

pub const RULE: &str = "(1) generated binary-flow programs: binaries built by concat/slice/repeat/zero-fill/not, moved through spawn captures, spawn arguments (bare and nested in tuples), messages (bare, tuples), filter receives, closures used as select sources, mailboxes of finished processes, block-scoped temporaries, awaited results; (2) message-passing scenarios with binary payloads (incl. fan-in and failing processes). Each runs on SimNet under several schedules with quantum down to 1; after EVERY worker step the monitor walks all roots independently and checks: refcount>0 <=> reachable, reachable => not freed, free list == freed flags (no duplicates), refcount==0 and not freed => queued for reclamation, no dangling index; at the end every binary is read back and compared with the model bytes. distinct_nontrivial = distinct binary-flow program sources";
pub const ASSUME: &[&str] = &["between-step points of SimNet are the property's 'between time slices'", "root walk covers stack, locals, mailbox, result, select sources/receiving, awaiting, constant cache (all Value-bearing state of Process + executor)"];
pub const SITUATIONS: &[&str] = &["root_occurrences_stack", "root_occurrences_locals", "root_occurrences_mailbox", "root_occurrences_result", "root_occurrences_select_sources", "root_occurrences_select_receiving", "root_occurrences_awaiting", "root_occurrences_constant_cache", "runs_with_slot_reclaimed", "programs_read_back_exactly"];
