//! C07 — every function the compiler emits is well-formed bytecode (also after tree-shaking and
//! after merging into a running environment).
use crate::bcverify::{self, AbsState, Tables};
use crate::c18::corpus_items;
use crate::procsys::*;
use crate::qv;
use crate::report::{Report, Violation};
use crate::rng::Rng;
use crate::simnet::*;
use quiver_core::bytecode::Bytecode;
use quiver_core::program::Program;
use serde_json::json;
use std::cell::RefCell;
use std::collections::BTreeMap;
use std::rc::Rc;

pub fn tables_of_program(p: &Program, check_process_fn: bool) -> Tables<'_> {
    Tables { n_constants: p.get_constants().len(), tuples: p.get_tuples(), types: p.get_types(), functions: p.get_functions(), builtins: p.get_builtins(), check_process_fn }
}
pub fn tables_of_bytecode(b: &Bytecode) -> Tables<'_> {
    Tables { n_constants: b.constants.len(), tuples: &b.tuples, types: &b.types, functions: &b.functions, builtins: &b.builtins, check_process_fn: false }
}

/// Programs from every generator of the harness (process code, binaries, resources, num/dict batches).
pub fn generated_source(rng: &mut Rng, k: usize) -> (&'static str, String) {
    match k % 7 {
        0 => ("scenario-confluent", crate::scen::generate(rng, &crate::scen::GenCfg { max_nodes: 8, max_depth: 4, confluent: true, fail_permille: 200, binaries: true }).emit()),
        1 => ("scenario-fan-in", crate::scen::generate(rng, &crate::scen::GenCfg { max_nodes: 8, max_depth: 3, confluent: false, fail_permille: 0, binaries: true }).emit()),
        2 => ("select-scenario", crate::c05::gen_sel(rng).emit_opts(rng.chance(1, 2))),
        3 => ("binary-flow", crate::c06::gen_binprog(rng).src),
        4 => ("resource-scenario", crate::c14::gen_res(rng).src),
        5 => { let ops = crate::c20::gen_ops(rng, 12); ("num-batch", format!("n = %num,\n[\n  {}\n]\n", ops.iter().map(|o| o.src.clone()).collect::<Vec<_>>().join(",\n  "))) }
        _ => ("dict-history", crate::c19::gen_history(rng).src),
    }
}

struct DynMon {
    /// abstract states per function index (environment ids)
    states: BTreeMap<usize, Vec<Option<AbsState>>>,
    /// shadow frame bases per (worker, pid): stack height at frame entry minus one
    bases: BTreeMap<(usize, usize), Vec<usize>>,
    last: BTreeMap<(usize, usize), (usize, usize, usize)>, // frames, fi, counter
    pub checked: u64,
    pub violation: Option<String>,
}

struct SharedDyn(Rc<RefCell<DynMon>>);

impl StepObserver for SharedDyn {
    fn before_worker_step(&mut self, _sim: &Sim, _w: usize) {}
    fn after_worker_step(&mut self, sim: &Sim, w: usize) {
        let mut m = self.0.borrow_mut();
        if m.violation.is_some() { return; }
        let ex = sim.workers[w].verif_executor();
        let sv = ex.verif_sched_view();
        for pid in &sv.processes {
            let Some(p) = ex.get_process(*pid) else { continue };
            let key = (w, *pid);
            if p.frames.is_empty() { m.bases.remove(&key); m.last.remove(&key); continue; }
            let top = p.frames.last().unwrap();
            let cur = (p.frames.len(), top.function_index, top.counter);
            let prev = m.last.get(&key).copied();
            m.last.insert(key, cur);
            let bases = m.bases.entry(key).or_default();
            // maintain shadow bases
            while bases.len() > p.frames.len() { bases.pop(); }
            let entered = bases.len() < p.frames.len();
            let tail_called = !entered && prev.map(|(n, fi, c)| n == cur.0 && cur.2 == 0 && (fi != cur.1 || c != 0)).unwrap_or(false);
            if entered {
                if p.frames.len() - bases.len() > 1 { bases.clear(); for _ in 0..p.frames.len() { bases.push(usize::MAX); } continue; }
                bases.push(p.stack.len().saturating_sub(1));
            } else if tail_called { *bases.last_mut().unwrap() = p.stack.len().saturating_sub(1); }
            // mid-instruction parking points are not instruction boundaries
            if sv.spawning.contains(pid) || sv.selecting.contains(pid) || sv.effecting.contains(pid) || p.select_state.is_some() || p.result.is_some() { continue; }
            let base = *m.bases.get(&key).and_then(|b| b.last()).unwrap();
            if base == usize::MAX { continue; }
            let Some(st) = m.states.get(&top.function_index) else { continue };
            let h = p.stack.len() as isize - base as isize;
            let l = p.locals.len() as isize - top.verif_locals_base() as isize;
            match st.get(top.counter).copied().flatten() {
                None => { m.violation = Some(format!("process {} executes function {} pc {} which the verifier considers unreachable", pid, top.function_index, top.counter)); }
                Some(a) => {
                    if h != a.h as isize || l < a.lmin as isize || l > a.lmax as isize { m.violation = Some(format!("process {} at function {} pc {}: observed operand height {} and {} locals, verifier state is height {} locals [{}, {}]", pid, top.function_index, top.counter, h, l, a.h, a.lmin, a.lmax)); }
                    else { m.checked += 1; }
                }
            }
        }
    }
}

pub fn check(rep: &Report) {
    let quick = rep.quick();
    let b = qv::builtins_io();
    let items = corpus_items();
    let n_gen = if quick { 3000 } else { 60000 };
    let total = items.len() + n_gen;
    // std modules, each alone
    let std_mods = ["bin", "dict", "dns", "file", "fs", "int", "iter", "list", "num", "path", "range", "ref", "str", "vec"];
    crate::pool::run_indexed(total + std_mods.len(), 64, |i| {
        let mut rng = Rng::derive(rep.seed, "C07", 0, i as u64);
        let (origin, src): (String, String) = if i < items.len() { (items[i].origin.clone(), items[i].src.clone()) }
            else if i < total { let (o, s) = generated_source(&mut rng, i); (format!("generated/{}", o), s) }
            else { let m = std_mods[i - total]; (format!("std-import/{}", m), format!("m = %{}, 1", m)) };
        let Ok(cp) = std::panic::catch_unwind(|| qv::compile(&src, &b)) else { rep.count("compile_panicked(skipped; C18's business)", 1); return; };
        let Ok(cp) = cp else { rep.count("not_accepted(skipped)", 1); return; };
        rep.count("programs_accepted", 1);
        rep.count(&format!("origin={}", origin.split('/').next().unwrap_or("")), 1);
        let viol = |stage: &str, e: String| {
            let kind = if e.contains("locals when it ends") { "entry-exit-locals" } else if e.contains("underflow") { "stack-underflow" } else if e.contains("heights") { "inconsistent-join" } else if e.contains("at exit") || e.contains("tail call with") { "exit-height" } else if e.contains("jump target") { "jump-out-of-range" } else if e.contains("reads local") || e.contains("resets locals") { "undefined-local" } else if e.contains("out of range") { "index-out-of-range" } else { "other" };
            rep.violation(Violation { signature: format!("C07:{}:{}", stage, kind), what: format!("[{}] {}", origin, e), witness: json!({"source": src, "stage": stage}) });
        };
        // (a) as compiled
        rep.eval(1);
        match bcverify::verify_all(&tables_of_program(&cp.program, false), &|_| None) {
            Ok(ps) => { rep.count("functions_verified_as_compiled", ps.functions as u64); rep.count("join_points", ps.joins as u64); rep.count("functions_with_joins", ps.functions_with_joins as u64); rep.count("instructions_visited", ps.instructions as u64); if ps.functions_with_joins > 0 { rep.distinct(crate::rng::fnv64(src.as_bytes())); } }
            Err(e) => { viol("compiled", e); return; }
        }
        // (a') the program's entry function is what a REPL session runs per line, and the session keeps its locals: every path must
        // leave the same number of them (a later line reads them by index)
        {
            let t = tables_of_program(&cp.program, false);
            if let Some(f) = t.functions.get(cp.entry) { if let Ok((_, states)) = bcverify::verify_function(cp.entry, f, &t, 0) { if let Some(Some(e)) = states.last() { rep.count("entry_functions_checked_for_exit_locals", 1); if e.lmin != e.lmax { viol("compiled", format!("the entry function leaves between {} and {} locals when it ends, depending on the path", e.lmin, e.lmax)); return; } } } }
        }
        // (b) tree-shaken
        rep.eval(1);
        let shaken = cp.program.to_bytecode_optimized(cp.entry);
        match bcverify::verify_all(&tables_of_bytecode(&shaken), &|_| None) {
            Ok(ps) => { rep.count("functions_verified_after_tree_shake", ps.functions as u64); if shaken.entry.map(|e| e >= shaken.functions.len()).unwrap_or(true) { viol("tree-shake", "entry index out of range".into()); } }
            Err(e) => { viol("tree-shake", e); return; }
        }
        if rep.want_sample() && i >= items.len() { rep.sample(json!({"origin": origin, "source_head": src.lines().take(6).collect::<Vec<_>>()})); }
        // (c) merged into an environment that already holds 0-4 other programs, in random order
        if i % 3 == 0 {
            let mut sim = Sim::new(1, &b, false, None);
            sim.set_logging(false);
            let n_other = rng.below(5);
            let mut progs: Vec<Bytecode> = vec![];
            for _ in 0..n_other {
                let (_, s) = if rng.chance(1, 2) { let it = &items[rng.below(items.len())]; ("", it.src.clone()) } else { { let kk = rng.below(7); generated_source(&mut rng, kk) } };
                if let Ok(Ok(c2)) = std::panic::catch_unwind(|| qv::compile(&s, &b)) { progs.push(if rng.chance(1, 2) { c2.program.to_bytecode(Some(c2.entry)) } else { c2.program.to_bytecode_optimized(c2.entry) }); }
            }
            let mine = if rng.chance(1, 2) { shaken.clone() } else { cp.program.to_bytecode(Some(cp.entry)) };
            let pos = rng.below(progs.len() + 1);
            progs.insert(pos, mine);
            for (k, bc) in progs.into_iter().enumerate() {
                let r = std::panic::catch_unwind(std::panic::AssertUnwindSafe(|| sim.env.start_process(Some(bc))));
                match r { Ok(Ok(_)) => {} Ok(Err(e)) => { viol("merge", format!("merge #{} failed: {}", k, e)); return; } Err(p) => { viol("merge", format!("merge #{} panicked: {}", k, crate::pool::panic_msg(&p))); return; } }
                rep.eval(1);
                match bcverify::verify_all(&tables_of_program(sim.env.get_program(), true), &|_| None) {
                    Ok(ps) => rep.count("functions_verified_after_merge", ps.functions as u64),
                    Err(e) => { viol("merge", format!("after merging program #{} of the sequence: {}", k, e)); return; }
                }
            }
            rep.count("merge_sequences", 1);
        }
        // (d) dynamic cross-check of the abstraction against the real interpreter (quantum 1)
        if i % 4 == 1 {
            let bc = cp.program.to_bytecode(Some(cp.entry));
            let mut sim = Sim::new(2, &b, false, None);
            sim.set_logging(false);
            let Ok(st) = start_program(&mut sim, bc) else { return };
            let _ = st;
            let mut states = BTreeMap::new();
            let envp = sim.env.get_program();
            let t = tables_of_program(envp, true);
            for (fi, f) in envp.get_functions().iter().enumerate() { if let Ok((_, s)) = bcverify::verify_function(fi, f, &t, f.captures) { states.insert(fi, s); } }
            let mon = Rc::new(RefCell::new(DynMon { states, bases: BTreeMap::new(), last: BTreeMap::new(), checked: 0, violation: None }));
            sim.observer = Some(Box::new(SharedDyn(mon.clone())));
            let mut r2 = Rng::new(rng.next());
            let _ = sim.run(Strategy::Eager, QuantumPolicy::Fixed(1), &mut r2, 30_000, &|| false, &mut |_s| false);
            sim.observer = None;
            let m = mon.borrow();
            rep.count("dynamic_states_cross_checked", m.checked);
            if m.checked > 0 { rep.count("programs_dynamically_cross_checked", 1); }
            if let Some(v) = &m.violation { viol("dynamic", v.clone()); }
        }
    });
}

pub const RULE: &str = "every program that compiles from: the corpus extracted from the current /repo (test-suite sources, spec/README blocks, std, examples, format/parser test literals), `m = %<std module>` for each std module, and programs from the harness's generators (process scenarios incl. failing ones, select scenarios, binary-flow, resource scenarios, %num batches, %dict histories). Each is verified (a) as compiled (all functions of the Program), (b) after to_bytecode_optimized (tree shake), (c) as Environment::get_program() after being merged, plain or shaken, into an environment at a random position among 0-4 other programs (after every merge, all functions), and (d) on a sample, dynamically: executed with quantum 1 and at every instruction boundary the observed (function, pc, operand height relative to frame entry, locals) must lie in the verifier's abstract state. Verifier: worklist dataflow with transfer functions mirroring execute_hot/cold; equal stack height at joins; exit height exactly 1; Load(i) < guaranteed locals; Reset(k) <= guaranteed locals; jump targets in [0, len]; all constant/tuple/type/function/builtin indices and all type-table ids in range. distinct_nontrivial = distinct accepted sources having at least one join point";
pub const ASSUME: &[&str] = &["says nothing about functions the workload never makes the compiler emit", "REPL-line functions (initial locals = session bindings) are verified by C11's workload"];
pub const SITUATIONS: &[&str] = &["functions_verified_as_compiled", "functions_verified_after_tree_shake", "functions_verified_after_merge", "merge_sequences", "dynamic_states_cross_checked", "join_points", "origin=generated", "origin=tests", "origin=std-import", "origin=docs"];
