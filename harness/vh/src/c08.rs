//! C08 — runtime type tests accept only members and never reject known members, identically
//! when run directly, after tree-shaking, merged after other programs, and in a REPL session.
use crate::c09::{self, emit, Sem, Ty, Val};
use crate::c18::corpus_items;
use crate::procsys::*;
use crate::qv::{self, CV};
use crate::report::{Report, Violation};
use crate::rng::Rng;
use crate::simnet::*;
use serde_json::json;
use std::collections::HashMap;

fn val_expr(v: &Val) -> Option<String> {
    Some(match v {
        Val::Int(i) => i.to_string(), Val::Bin(0) => "0x".into(), Val::Bin(_) => "0x00".into(), Val::Ref => return None,
        Val::Tup { name, fields } => { let n = name.unwrap_or(""); if fields.is_empty() { if n.is_empty() { "[]".into() } else { n.into() } } else { let mut fs = vec![]; for (l, f) in fields { let e = val_expr(f)?; fs.push(match l { Some(l) => format!("{}: {}", l, e), None => e }); } format!("{}[{}]", n, fs.join(", ")) } }
        Val::Fun { .. } => return None,
    })
}

/// the exact static type of a literal value expression
fn static_ty(v: &Val) -> Ty {
    match v {
        Val::Int(_) => Ty::Int, Val::Bin(_) => Ty::Bin, Val::Ref => Ty::Ref,
        Val::Tup { name, fields } => Ty::Tuple { name: *name, fields: fields.iter().map(|(l, f)| (*l, static_ty(f))).collect() },
        Val::Fun { p, r } => Ty::Fn(Box::new(p.clone()), Box::new(r.clone())),
    }
}

#[derive(Clone, Debug)]
pub struct Test { pub expr: String, pub value: Val, pub target: usize, pub must_accept: bool, pub form: &'static str, /** the alias the scrutinee is statically typed at, when it is not the literal's exact type */ pub static_alias: Option<usize> }

pub struct Case { pub aliases: Vec<Ty>, pub alias_src: String, pub helpers: String, pub tests: Vec<Test> }

pub fn gen_case(rng: &mut Rng) -> Option<Case> {
    let ap = c09::gen_program(rng);
    let sem = Sem { aliases: &ap.aliases };
    let k = ap.aliases.len();
    let usable: Vec<usize> = (0..k).filter(|i| !format!("{:?}", ap.aliases[*i]).contains("Fn(")).collect();
    if usable.is_empty() { return None; }
    let mut tests = vec![];
    // a widening helper: builds A-named one-field tuples whose field has a wide static type
    let helpers = "wide = #('int | 'bin | [] | A) { W[x: $] },\nident = #<'t>'t { $ },\n".to_string();
    for _ in 0..(6 + rng.below(10)) {
        let src_alias = *rng.pick(&usable);
        let vals = sem.enumerate(&ap.aliases[src_alias], 3, 40);
        if vals.is_empty() { continue; }
        let v = rng.pick(&vals).clone();
        let Some(e) = val_expr(&v) else { continue };
        let target = *rng.pick(&usable);
        let st = static_ty(&v);
        // compile-time containment of the literal's exact type in the target, by enumeration
        let all_in = { let a: Vec<Ty> = ap.aliases.clone(); let sem2 = Sem { aliases: &a }; let st_ref: &Ty = &st; let members = Sem { aliases: &a }.enumerate(unsafe { std::mem::transmute::<&Ty, &Ty>(st_ref) }, 3, 60); !members.is_empty() && members.iter().all(|m| sem2.is_member(m, &a[target])) };
        let form = match rng.below(6) { 0 => "type-pattern", 1 => "type-ascribed-binding", 2 => "via-generic-identity", 3 | 4 => "via-alias-typed-parameter", _ => "type-pattern" };
        // through a function whose parameter is the (wider) alias the value was drawn from: the scrutinee's compile-time type is
        // then that alias, not the literal's exact type — acceptance is only required when the compile-time type is contained
        // in the target, which is not decided here, so this form checks soundness (accepted => member) only
        let all_in = if form == "via-alias-typed-parameter" { false } else { all_in };
        let expr = match form {
            "type-ascribed-binding" => format!("[{} =('t{})q{}]", e, target, tests.len()),
            "via-generic-identity" => format!("[{} ident ='t{}]", e, target),
            "via-alias-typed-parameter" => if rng.chance(1, 2) { format!("[{} pass{} ='t{}]", e, src_alias, target) } else { format!("[{} pass{} =('t{})w{}]", e, src_alias, target, tests.len()) },
            _ => format!("[{} ='t{}]", e, target),
        };
        tests.push(Test { expr, value: v, target, must_accept: all_in, form, static_alias: if form == "via-alias-typed-parameter" { Some(src_alias) } else { None } });
    }
    // wide-static-type values against W-partials are covered by soundness only
    if tests.is_empty() { return None; }
    let alias_src = ap.aliases.iter().enumerate().map(|(i, t)| format!("'t{} = {}", i, emit(t))).collect::<Vec<_>>().join("\n");
    let helpers = format!("{}{}", helpers, usable.iter().map(|i| format!("pass{} = #'t{} {{ $ }},\n", i, i)).collect::<String>());
    Some(Case { aliases: ap.aliases, alias_src, helpers, tests })
}

fn verdicts(cv: &CV, n: usize) -> Option<Vec<bool>> {
    let CV::Tuple(None, fs) = cv else { return None };
    if fs.len() != n { return None; }
    fs.iter().map(|(_, f)| match f { CV::Tuple(None, inner) if inner.len() == 1 => Some(!inner[0].1.is_nil()), _ => None }).collect()
}

/// type tests on process and function values (the generated aliases have none): (source, expected result if known)
fn proc_fn_templates(rng: &mut Rng) -> Vec<(String, Option<&'static str>)> {
    let k = rng.range(0, 9);
    vec![
        (format!("f = #(@'int | 'int) {{ =(@'int) => Yes | No }}, p = @{{ !'int }}, [&p f, {k} f]"), Some("[Yes, No]")),
        (format!("f = #(@'bin | @'int | 'int) {{ | =(@'int) => PI | =(@'bin) => PB | N }}, p = @{{ !'int }}, q = @{{ !'bin }}, [&p f, &q f, {k} f]"), Some("[PI, PB, N]")),
        (format!("'pt = @'int\nf = #('pt | 'bin) {{ | =('pt)w => Proc | Other }}, p = @{{ !'int {{ =0 => 1 | 2 }} }}, [&p f, 0x0{k} f]"), Some("[Proc, Other]")),
        (format!("g = #'int {{ [~, {k}] __integer_add__ }}, h = #((#'int -> 'int) | 'int) {{ | ='int => NotFn | Fn }}, [&g h, 3 h]"), Some("[Fn, NotFn]")),
        (format!("r = #{{ !'int }}, f = #((#[] -> 'int) | 'bin) {{ | ='bin => B | F }}, [&r f, 0x0{k} f]"), None),
    ]
}

fn check_proc_fn_templates(rep: &Report, rounds: usize) {
    let b = qv::builtins();
    let items = corpus_items();
    crate::pool::run_indexed(rounds, 64, |i| {
        let mut rng = Rng::derive(rep.seed, "C08-proc", 0, i as u64);
        for (src, expected) in proc_fn_templates(&mut rng) {
            let Ok(Ok(cp)) = std::panic::catch_unwind(|| qv::compile(&src, &b)) else { rep.count("process_template_not_accepted(skipped)", 1); continue; };
            let run = |bc: quiver_core::bytecode::Bytecode, others: usize, rng: &mut Rng| -> Option<String> {
                let mut sim = Sim::new(2, &b, false, None);
                sim.set_logging(false);
                for _ in 0..others { let it = &items[rng.below(items.len())]; if let Ok(Ok(c2)) = std::panic::catch_unwind(|| qv::compile(&it.src, &b)) { let _ = sim.env.start_process(Some(c2.program.to_bytecode(Some(c2.entry)))); } }
                let st = start_program(&mut sim, bc).ok()?;
                let mut r2 = Rng::new(rng.next());
                let _ = sim.run(Strategy::Eager, QuantumPolicy::Fixed(1000), &mut r2, 200_000, &|| false, &mut |_s| false);
                match poll_root(&mut sim, &st).map(|r| canon_root(&sim, &r, st.pid)) { Some(Fate::Done(v)) => Some(v.show()), _ => None }
            };
            let plain = cp.program.to_bytecode(Some(cp.entry)); let shaken = cp.program.to_bytecode_optimized(cp.entry);
            let Some(base) = run(plain.clone(), 0, &mut rng) else { rep.count("process_template_without_result", 1); continue; };
            let viol = |sig: &str, what: String| rep.violation(Violation { signature: format!("C08:{}", sig), what: format!("{}\n--- program ---\n{}", what, src), witness: json!({"source": src}) });
            rep.eval(1); rep.count("process_and_function_type_templates", 1);
            if let Some(e) = expected { if base != e { viol("process-or-function-type-test-wrong", format!("direct run gave {} where {} is expected", base, e)); continue; } }
            for (name, bc, others) in [("tree-shaken", shaken.clone(), 0usize), ("merged-after-other-programs", plain.clone(), 1 + rng.below(4)), ("merged-after-other-programs", shaken.clone(), 1 + rng.below(4))] {
                rep.eval(1); rep.count(&format!("process_template_config={}", name), 1);
                match run(bc, others, &mut rng) { Some(v) if v == base => {} Some(v) => viol(&format!("process-or-function-type-test-differs:{}", name), format!("{} gave {} but the direct run gave {}", name, v, base)), None => rep.count("process_template_config_without_result", 1) }
            }
        }
    });
}

pub fn check(rep: &Report) {
    let quick = rep.quick();
    check_proc_fn_templates(rep, if quick { 120 } else { 3000 });
    let n = if quick { 6000 } else { 120_000 };
    let b = qv::builtins();
    let items = corpus_items();
    crate::pool::run_indexed(n, 64, |i| {
        let mut rng = Rng::derive(rep.seed, "C08", 0, i as u64);
        let Some(case) = gen_case(&mut rng) else { return };
        let body = format!("[\n  {}\n]", case.tests.iter().map(|t| t.expr.clone()).collect::<Vec<_>>().join(",\n  "));
        let src = format!("{}\n{}{}\n", case.alias_src, case.helpers, body);
        let Ok(Ok(cp)) = std::panic::catch_unwind(|| qv::compile(&src, &b)) else { rep.count("not_accepted_by_front_end(skipped)", 1); return; };
        rep.count("programs", 1);
        if rep.want_sample() { rep.sample(json!({"type_test_program": src})); }
        let sem = Sem { aliases: &case.aliases };
        let nt = case.tests.len();
        let mut configs: Vec<(&'static str, Option<Vec<bool>>)> = vec![];
        // (1) direct
        let bc = cp.program.to_bytecode(Some(cp.entry));
        configs.push(("direct", match qv::run_bytecode(&bc, &b, false).outcome { qv::RunOutcome::Value(v) => verdicts(&v, nt), _ => None }));
        // (2) tree-shaken
        let shaken = cp.program.to_bytecode_optimized(cp.entry);
        configs.push(("tree-shaken", match qv::run_bytecode(&shaken, &b, false).outcome { qv::RunOutcome::Value(v) => verdicts(&v, nt), _ => None }));
        // (3) merged after 0-4 unrelated programs (every id shifts)
        if i % 2 == 0 {
            let mut sim = Sim::new(2, &b, false, None);
            sim.set_logging(false);
            for _ in 0..rng.below(5) { let it = &items[rng.below(items.len())]; if let Ok(Ok(c2)) = std::panic::catch_unwind(|| qv::compile(&it.src, &b)) { let _ = sim.env.start_process(Some(c2.program.to_bytecode(Some(c2.entry)))); } }
            let r = start_program(&mut sim, if rng.chance(1, 2) { shaken.clone() } else { bc.clone() }).ok().and_then(|st| { let mut r2 = Rng::new(rng.next()); let _ = sim.run(Strategy::Eager, QuantumPolicy::Fixed(1000), &mut r2, 200_000, &|| false, &mut |_s| false); poll_root(&mut sim, &st).map(|r| canon_root(&sim, &r, st.pid)) });
            configs.push(("merged-after-other-programs", match r { Some(Fate::Done(v)) => verdicts(&v, nt), _ => None }));
        }
        // (4) REPL: aliases on an earlier line, other lines in between
        if i % 2 == 1 {
            let mut sess = ReplSession::new(2, &b, HashMap::new());
            sess.sim.set_logging(false);
            let mut r2 = Rng::new(rng.next());
            let mut ok = true;
            for line in [case.alias_src.clone(), "filler = [1, \"s\", A[x: 0x00]]".to_string(), case.helpers.trim_end().trim_end_matches(',').to_string()] { match sess.eval(&line, Strategy::Eager, &mut r2) { LineOutcome::Value(_) | LineOutcome::NoValue => {} _ => { ok = false; break; } } }
            let v = if ok { match sess.eval(&body, Strategy::Eager, &mut r2) { LineOutcome::Value(v) => verdicts(&v, nt), _ => None } } else { None };
            configs.push(("repl-alias-on-earlier-line", v));
        }
        let viol = |sig: &str, what: String| rep.violation(Violation { signature: format!("C08:{}", sig), what: format!("{}\n--- program ---\n{}", what, src), witness: json!({"source": src}) });
        let reference = configs[0].1.clone();
        for (name, v) in &configs {
            let Some(v) = v else { rep.inconclusive(json!({"why": "configuration produced no verdict vector", "config": name})); rep.count(&format!("config_without_result={}", name), 1); continue; };
            rep.count(&format!("config={}", name), 1);
            for (t, accepted) in case.tests.iter().zip(v.iter()) {
                rep.eval(1);
                let is_member = sem.is_member(&t.value, &case.aliases[t.target]);
                rep.count(&format!("form={}", t.form), 1);
                let rec = c09::has_cycle_deep(&case.aliases[t.target], &case.aliases) || t.static_alias.map(|a| c09::has_cycle_deep(&case.aliases[a], &case.aliases)).unwrap_or(false);
                if *accepted && !is_member { viol(if rec { "accepted-non-member:recursive-types" } else { "accepted-non-member" }, format!("[{}] `{}` accepted the value {} which does not inhabit 't{} = {}", name, t.expr, t.value.show(), t.target, emit(&case.aliases[t.target]))); }
                else if !*accepted && t.must_accept { viol(if rec { "rejected-known-member:recursive-types" } else { "rejected-known-member" }, format!("[{}] `{}` rejected the value {} although its compile-time type is contained in 't{} = {}", name, t.expr, t.value.show(), t.target, emit(&case.aliases[t.target]))); }
                else { if *accepted { rep.count("accepted_members", 1); } else if is_member { rep.count("rejected_members_with_wider_static_type(allowed)", 1); } else { rep.count("rejected_non_members", 1); } if t.must_accept { rep.count("required_acceptances_confirmed", 1); } rep.distinct(crate::rng::fnv64(format!("{}|{}", t.expr, emit(&case.aliases[t.target])).as_bytes())); }
            }
            if let Some(r) = &reference { if r != v { viol("configurations-disagree", format!("verdicts under `{}` {:?} differ from the direct run {:?}", name, v, r)); } }
        }
    });
}

pub const RULE: &str = "alias programs from C09's generator (unions, partials, named/unnamed tuples, labels, recursive aliases) x values enumerated from the aliases, written as literals (so the compile-time type is the literal's exact shape) and tested with `v ='t`, `v =('t)x` and through a generic identity; expected: accepted => the value inhabits the type as written (exact finite membership); compile-time type contained in the target (decided by enumeration) => accepted. Every program runs directly, tree-shaken, merged into an environment after 0-4 unrelated corpus programs (all ids shift), and in a REPL session with the aliases on an earlier line; verdict vectors must agree across configurations. distinct_nontrivial = distinct (test expression, target type) pairs judged";
pub const ASSUME: &[&str] = &["values with a compile-time type wider than the pattern may be rejected (documented tag-based carve-out): only soundness is required there", "function, process and resource types are not generated here (typed receive sources and \\File are exercised by C05/C14 workloads)"];
pub const SITUATIONS: &[&str] = &["config=direct", "config=tree-shaken", "config=merged-after-other-programs", "config=repl-alias-on-earlier-line", "accepted_members", "rejected_non_members", "required_acceptances_confirmed", "form=type-ascribed-binding", "form=via-generic-identity"];
