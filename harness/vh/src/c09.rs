//! C09 — assignability implies containment; overlap detection is complete; narrowing keeps values.
//! Ground truth = membership of finite values in the type AS WRITTEN (source-level semantics);
//! the relations under test are evaluated on the ids the real front end produced.
use crate::qv;
use crate::report::{Report, Violation};
use crate::rng::Rng;
use quiver_compiler::compiler::Binding;
use quiver_core::program::Program;
use quiver_core::types::{is_compatible, types_overlap, Type, TypeLookup};
use serde_json::json;

#[derive(Clone, Debug, PartialEq)]
pub enum Ty {
    Int, Bin, Ref,
    Tuple { name: Option<&'static str>, fields: Vec<(Option<&'static str>, Ty)> },
    Partial { name: Option<&'static str>, fields: Vec<(&'static str, Ty)> },
    Union(Vec<Ty>),
    /// `^k`: the k-th boundary (union) counted from the root of the alias
    Cycle(usize),
    Fn(Box<Ty>, Box<Ty>),
    Alias(usize),
}

#[derive(Clone, Debug, PartialEq)]
pub enum Val {
    Int(u8), Bin(u8), Ref,
    Tup { name: Option<&'static str>, fields: Vec<(Option<&'static str>, Val)> },
    Fun { p: Ty, r: Ty },
}

impl Val {
    pub fn show(&self) -> String {
        match self {
            Val::Int(i) => i.to_string(), Val::Bin(0) => "0x".into(), Val::Bin(_) => "0x00".into(), Val::Ref => "<ref>".into(),
            Val::Tup { name, fields } => { let n = name.unwrap_or(""); if fields.is_empty() { return if n.is_empty() { "[]".into() } else { n.into() }; } format!("{}[{}]", n, fields.iter().map(|(l, v)| match l { Some(l) => format!("{}: {}", l, v.show()), None => v.show() }).collect::<Vec<_>>().join(", ")) }
            Val::Fun { p, r } => format!("<function declared #{} -> {}>", emit_atom(p), emit_atom(r)),
        }
    }
}

pub fn emit(t: &Ty) -> String {
    match t {
        Ty::Int => "'int".into(), Ty::Bin => "'bin".into(), Ty::Ref => "'ref".into(),
        Ty::Tuple { name, fields } => { let n = name.unwrap_or(""); if fields.is_empty() { return if n.is_empty() { "[]".into() } else { n.into() }; } format!("{}[{}]", n, fields.iter().map(|(l, f)| match l { Some(l) => format!("{}: {}", l, emit_atom(f)), None => emit_atom(f) }).collect::<Vec<_>>().join(", ")) }
        Ty::Partial { name, fields } => format!("{}({})", name.unwrap_or(""), fields.iter().map(|(l, f)| format!("{}: {}", l, emit_atom(f))).collect::<Vec<_>>().join(", ")),
        Ty::Union(ms) => ms.iter().map(emit_atom).collect::<Vec<_>>().join(" | "),
        Ty::Cycle(0) => "^".into(), Ty::Cycle(k) => format!("^{}", k),
        Ty::Fn(p, r) => format!("#{} -> {}", emit_atom(p), emit_atom(r)),
        Ty::Alias(i) => format!("'t{}", i),
    }
}
fn emit_atom(t: &Ty) -> String { match t { Ty::Union(_) | Ty::Fn(..) => format!("({})", emit(t)), _ => emit(t) } }

const NAMES: [Option<&str>; 4] = [None, Some("A"), Some("B"), Some("C")];
const LABELS: [Option<&str>; 3] = [None, Some("x"), Some("y")];

fn has_cycle(t: &Ty) -> bool { match t { Ty::Cycle(_) => true, Ty::Tuple { fields, .. } => fields.iter().any(|f| has_cycle(&f.1)), Ty::Partial { fields, .. } => fields.iter().any(|f| has_cycle(&f.1)), Ty::Union(ms) => ms.iter().any(has_cycle), Ty::Fn(p, r) => has_cycle(p) || has_cycle(r), _ => false } }
pub fn has_cycle_deep(t: &Ty, aliases: &[Ty]) -> bool { match t { Ty::Cycle(_) => true, Ty::Tuple { fields, .. } => fields.iter().any(|f| has_cycle_deep(&f.1, aliases)), Ty::Partial { fields, .. } => fields.iter().any(|f| has_cycle_deep(&f.1, aliases)), Ty::Union(ms) => ms.iter().any(|m| has_cycle_deep(m, aliases)), Ty::Fn(p, r) => has_cycle_deep(p, aliases) || has_cycle_deep(r, aliases), Ty::Alias(i) => has_cycle_deep(&aliases[*i], aliases), _ => false } }
fn has_fn(t: &Ty, aliases: &[Ty]) -> bool { match t { Ty::Fn(..) => true, Ty::Tuple { fields, .. } => fields.iter().any(|f| has_fn(&f.1, aliases)), Ty::Partial { fields, .. } => fields.iter().any(|f| has_fn(&f.1, aliases)), Ty::Union(ms) => ms.iter().any(|m| has_fn(m, aliases)), Ty::Alias(i) => has_fn(&aliases[*i], aliases), _ => false } }

/// Generate a type. `boundaries`: number of enclosing unions (cycle targets available);
/// `guarded`: directly under a tuple field (a cycle is allowed here); `under_union`: directly a union member.
fn gen_ty(rng: &mut Rng, depth: usize, n_alias: usize, boundaries: usize, guarded: bool, under_union: bool, allow_fn: bool) -> Ty {
    let leaf = depth == 0;
    loop {
        let k = rng.below(if leaf { 6 } else { 14 });
        return match k {
            0 => Ty::Int, 1 => Ty::Bin,
            2 => if rng.chance(1, 3) { Ty::Ref } else { Ty::Int },
            3 => Ty::Tuple { name: *rng.pick(&NAMES), fields: vec![] },
            4 if n_alias > 0 => Ty::Alias(rng.below(n_alias)),
            5 if guarded && boundaries > 0 => Ty::Cycle(rng.below(boundaries)),
            6 | 7 | 8 => {
                let ar = 1 + rng.below(2);
                let mut labels: Vec<Option<&'static str>> = vec![];
                for _ in 0..ar { let mut l = *rng.pick(&LABELS); if l.is_some() && labels.contains(&l) { l = None; } labels.push(l); }
                Ty::Tuple { name: *rng.pick(&NAMES), fields: labels.into_iter().map(|l| (l, gen_ty(rng, depth - 1, n_alias, boundaries, true, false, allow_fn))).collect() }
            }
            9 | 10 if !under_union => {
                let n = 2 + rng.below(2);
                let mut ms: Vec<Ty> = vec![];
                for _ in 0..n { let m = gen_ty(rng, depth - 1, n_alias, boundaries + 1, false, true, allow_fn); if !matches!(m, Ty::Alias(_)) || rng.chance(1, 2) { if !ms.contains(&m) { ms.push(m); } } }
                if ms.len() < 2 { continue; }
                Ty::Union(ms)
            }
            11 => {
                let nf = rng.below(3);
                let mut fs: Vec<(&'static str, Ty)> = vec![];
                for _ in 0..nf { let l = if rng.chance(1, 2) { "x" } else { "y" }; if fs.iter().any(|f| f.0 == l) { continue; } fs.push((l, gen_ty(rng, depth - 1, n_alias, boundaries, true, false, false))); }
                Ty::Partial { name: *rng.pick(&NAMES[..3]), fields: fs }
            }
            12 if allow_fn && !under_union => {
                // closed component types only
                let comp = |rng: &mut Rng| -> Ty { match rng.below(5) { 0 => Ty::Int, 1 => Ty::Bin, 2 => Ty::Tuple { name: None, fields: vec![] }, 3 if n_alias > 0 => Ty::Alias(rng.below(n_alias)), _ => Ty::Tuple { name: Some("A"), fields: vec![(None, Ty::Int)] } } };
                Ty::Fn(Box::new(comp(rng)), Box::new(comp(rng)))
            }
            _ => continue,
        };
    }
}

// ---------------------------------------------------------------------------------------------
// Source-level semantics

pub struct Sem<'a> { pub aliases: &'a [Ty] }

impl<'a> Sem<'a> {
    pub fn member(&self, v: &Val, t: &Ty, stack: &mut Vec<&'a Ty>, t_ref: &'a Ty) -> bool {
        let _ = t;
        self.mem(v, t_ref, stack, 0)
    }

    fn mem(&self, v: &Val, t: &'a Ty, stack: &mut Vec<&'a Ty>, fuel: usize) -> bool {
        if fuel > 64 { return false; }
        match t {
            Ty::Int => matches!(v, Val::Int(_)), Ty::Bin => matches!(v, Val::Bin(_)), Ty::Ref => matches!(v, Val::Ref),
            Ty::Tuple { name, fields } => match v {
                Val::Tup { name: vn, fields: vf } => vn == name && vf.len() == fields.len() && vf.iter().zip(fields.iter()).all(|((vl, vv), (tl, tt))| vl == tl && self.mem(vv, tt, stack, fuel + 1)),
                _ => false,
            },
            Ty::Partial { name, fields } => match v {
                Val::Tup { name: vn, fields: vf } => (name.is_none() || vn == name) && fields.iter().all(|(l, ft)| vf.iter().find(|(vl, _)| *vl == Some(*l)).map(|(_, vv)| self.mem(vv, ft, stack, fuel + 1)).unwrap_or(false)),
                _ => false,
            },
            Ty::Union(ms) => { stack.push(t); let r = ms.iter().any(|m| self.mem(v, m, stack, fuel + 1)); stack.pop(); r }
            Ty::Cycle(k) => {
                if *k >= stack.len() { return false; }
                let target = stack[*k];
                let saved: Vec<&'a Ty> = stack.split_off(*k);
                let r = self.mem(v, target, stack, fuel + 1);
                stack.extend(saved);
                r
            }
            Ty::Alias(i) => { let mut fresh = vec![]; self.mem(v, &self.aliases[*i], &mut fresh, fuel + 1) }
            Ty::Fn(p, r) => match v {
                // f: #pf -> rf is a member of #P -> R iff P ⊆ pf and rf ⊆ R (components are closed types)
                Val::Fun { p: pf, r: rf } => self.subset(p, pf) && self.subset(rf, r),
                _ => false,
            },
        }
    }

    pub fn is_member(&self, v: &Val, t: &'a Ty) -> bool { let mut st = vec![]; self.mem(v, t, &mut st, 0) }

    /// A ⊆ B for closed types, decided on enumerated members of A (exact for the finite values tried)
    fn subset(&self, a: &Ty, b: &Ty) -> bool {
        // closed small component types: enumerate a
        let a2: &'a Ty = unsafe { std::mem::transmute::<&Ty, &'a Ty>(a) };
        let b2: &'a Ty = unsafe { std::mem::transmute::<&Ty, &'a Ty>(b) };
        let vals = self.enumerate(a2, 2, 40);
        vals.iter().all(|v| self.is_member(v, b2))
    }

    pub fn enumerate(&self, t: &'a Ty, depth: usize, cap: usize) -> Vec<Val> {
        let mut st = vec![];
        let mut out = self.enm(t, &mut st, depth, cap);
        out.dedup();
        out.truncate(cap);
        out
    }

    fn enm(&self, t: &'a Ty, stack: &mut Vec<&'a Ty>, depth: usize, cap: usize) -> Vec<Val> {
        match t {
            Ty::Int => vec![Val::Int(0), Val::Int(1)], Ty::Bin => vec![Val::Bin(0), Val::Bin(1)], Ty::Ref => vec![Val::Ref],
            Ty::Tuple { name, fields } => {
                let mut acc: Vec<Vec<(Option<&'static str>, Val)>> = vec![vec![]];
                for (l, ft) in fields {
                    let vs = self.enm(ft, stack, depth, cap);
                    let mut next = vec![];
                    for a in &acc { for v in &vs { if next.len() >= cap { break; } let mut b = a.clone(); b.push((*l, v.clone())); next.push(b); } }
                    acc = next;
                    if acc.is_empty() { return vec![]; }
                }
                acc.into_iter().map(|f| Val::Tup { name: *name, fields: f }).collect()
            }
            Ty::Partial { name, fields } => {
                // minimal witnesses plus widened ones (other name when unnamed, an extra field, reordered)
                let mut acc: Vec<Vec<(Option<&'static str>, Val)>> = vec![vec![]];
                for (l, ft) in fields {
                    let vs = self.enm(ft, stack, depth, cap);
                    let mut next = vec![];
                    for a in &acc { for v in vs.iter().take(3) { let mut b = a.clone(); b.push((Some(*l), v.clone())); next.push(b); } }
                    acc = next;
                    if acc.is_empty() { return vec![]; }
                }
                let mut out = vec![];
                for f in acc.into_iter().take(cap / 4 + 1) {
                    let names: Vec<Option<&'static str>> = if name.is_some() { vec![*name] } else { vec![None, Some("A"), Some("B")] };
                    for n in names {
                        out.push(Val::Tup { name: n, fields: f.clone() });
                        let mut g = f.clone(); g.push((None, Val::Int(0))); out.push(Val::Tup { name: n, fields: g });
                        if f.len() < 2 { let mut g = vec![(Some(if f.iter().any(|x| x.0 == Some("x")) { "y" } else { "x" }), Val::Bin(0))]; g.extend(f.clone()); out.push(Val::Tup { name: n, fields: g }); }
                    }
                }
                out
            }
            Ty::Union(ms) => { stack.push(t); let mut out = vec![]; for m in ms { out.extend(self.enm(m, stack, depth, cap)); } stack.pop(); out.truncate(cap); out }
            Ty::Cycle(k) => {
                if depth == 0 || *k >= stack.len() { return vec![]; }
                let target = stack[*k];
                let saved: Vec<&'a Ty> = stack.split_off(*k);
                let r = self.enm(target, stack, depth - 1, (cap / 3).max(2));
                stack.extend(saved);
                r
            }
            Ty::Alias(i) => { let mut fresh = vec![]; self.enm(&self.aliases[*i], &mut fresh, depth, cap) }
            Ty::Fn(p, r) => {
                // tokens with declared types from a small pool; keep the members
                let mut pool: Vec<Ty> = vec![Ty::Int, Ty::Bin, Ty::Tuple { name: None, fields: vec![] }, Ty::Tuple { name: Some("A"), fields: vec![(None, Ty::Int)] }, (**p).clone(), (**r).clone(), Ty::Union(vec![Ty::Int, Ty::Bin])];
                for i in 0..self.aliases.len() { if !has_fn(&self.aliases[i], self.aliases) { pool.push(Ty::Alias(i)); } }
                let mut out = vec![];
                for pf in &pool { for rf in &pool { if out.len() >= 12 { break; } let v = Val::Fun { p: pf.clone(), r: rf.clone() }; if self.subset(p, pf) && self.subset(rf, r) { out.push(v); } } }
                out
            }
        }
    }
}

// ---------------------------------------------------------------------------------------------
// Membership on the compiled type graph (for narrowing results and the front-end cross-check)

/// `member_graph` for a narrowing result: a cycle that reaches the result's own outermost boundary is
/// resolved against `declared` instead (the compiler resolves a narrowed value's recursive fields against
/// the declared type, see get_declared_type_for_provenance), the most permissive sound reading.
pub fn member_graph_narrowed(v: &Val, id: usize, declared: usize, p: &Program) -> Option<bool> {
    let mut stack = vec![];
    mg(v, id, p, &mut stack, 0, Some((id, declared)))
}

pub fn member_graph(v: &Val, id: usize, p: &Program, stack: &mut Vec<usize>, fuel: usize) -> Option<bool> { mg(v, id, p, stack, fuel, None) }

fn mg(v: &Val, id: usize, p: &Program, stack: &mut Vec<usize>, fuel: usize, declared: Option<(usize, usize)>) -> Option<bool> {
    if fuel > 64 { return Some(false); }
    let t = p.lookup_type(id)?;
    Some(match t {
        Type::Integer => matches!(v, Val::Int(_)), Type::Binary => matches!(v, Val::Bin(_)), Type::Reference => matches!(v, Val::Ref),
        Type::Tuple(tid) => { let info = p.lookup_tuple(*tid)?; match v { Val::Tup { name, fields } => { if info.name.as_deref() != *name || info.fields.len() != fields.len() { return Some(false); } for ((vl, vv), (tl, tt)) in fields.iter().zip(info.fields.iter()) { if tl.as_deref() != *vl { return Some(false); } if !mg(vv, *tt, p, stack, fuel + 1, declared)? { return Some(false); } } true } _ => false } }
        Type::Partial { name, fields } => match v { Val::Tup { name: vn, fields: vf } => { if name.is_some() && name.as_deref() != *vn { return Some(false); } for (l, ft) in fields { match vf.iter().find(|(vl, _)| *vl == Some(l.as_str())) { Some((_, vv)) => if !mg(vv, *ft, p, stack, fuel + 1, declared)? { return Some(false); }, None => return Some(false) } } true } _ => false },
        Type::Union(ms) => { stack.push(id); let mut r = false; for m in ms { if mg(v, *m, p, stack, fuel + 1, declared)? { r = true; break; } } stack.pop(); r }
        Type::Cycle(d) => {
            if *d == 0 { return None; }
            if *d > stack.len() { return match declared { Some((_, dec)) => { let mut fresh = vec![]; mg(v, dec, p, &mut fresh, fuel + 1, None) } None => None }; }
            let ix = stack.len() - d; let target = stack[ix];
            // the narrowing result's own top-level union stands for the declared type
            if let Some((root, dec)) = declared { if ix == 0 && target == root { let mut fresh = vec![]; return mg(v, dec, p, &mut fresh, fuel + 1, None); } } let saved = stack.split_off(ix); let r = mg(v, target, p, stack, fuel + 1, declared); stack.extend(saved); r?
        }
        Type::Variable(_) => true,
        Type::Callable { .. } | Type::Process { .. } | Type::Resource(_) => return None,
    })
}

pub struct AliasProgram { pub aliases: Vec<Ty>, pub src: String }

pub fn gen_program(rng: &mut Rng) -> AliasProgram {
    let n = 2 + rng.below(5);
    let mut aliases: Vec<Ty> = vec![];
    for i in 0..n {
        let allow_fn = rng.chance(1, 5);
        let dd = 1 + rng.below(3); let mut t = gen_ty(rng, dd, i, 0, false, false, allow_fn);
        // relatives of earlier aliases make interesting pairs: widen / narrow / perturb
        if i > 0 && rng.chance(1, 3) {
            let base = aliases[rng.below(i)].clone();
            t = match rng.below(4) {
                0 => match base { Ty::Union(mut ms) => { ms.push(gen_ty(rng, 1, i, 1, false, true, false)); Ty::Union(ms) } b => Ty::Union(vec![b, Ty::Tuple { name: Some("C"), fields: vec![] }]) },
                1 => match base { Ty::Union(mut ms) if ms.len() > 2 => { ms.pop(); Ty::Union(ms) } b => b },
                2 => match base { Ty::Tuple { name, fields } if !fields.is_empty() => { let lf: Vec<(&'static str, Ty)> = fields.iter().filter_map(|(l, t)| l.map(|l| (l, t.clone()))).collect(); if has_cycle(&Ty::Tuple { name, fields: fields.clone() }) { Ty::Tuple { name, fields } } else { Ty::Partial { name: if rng.chance(1, 2) { name } else { None }, fields: lf } } } b => b },
                _ => match base { Ty::Tuple { name, mut fields } if !fields.is_empty() && !fields.iter().any(|f| has_cycle(&f.1)) => { let k = rng.below(fields.len()); fields[k].1 = Ty::Union(vec![fields[k].1.clone(), Ty::Bin]); if let Ty::Union(ms) = &mut fields[k].1 { ms.dedup(); if ms.len() < 2 { ms.push(Ty::Int); } if ms[0] == ms[1] { ms[1] = Ty::Ref; } } Ty::Tuple { name, fields } } b => b },
            };
        }
        aliases.push(t);
    }
    let src = aliases.iter().enumerate().map(|(i, t)| format!("'t{} = {}", i, emit(t))).collect::<Vec<_>>().join("\n") + "\n1\n";
    AliasProgram { aliases, src }
}

fn well_formed(t: &Ty, boundaries: usize) -> bool {
    match t { Ty::Cycle(k) => *k < boundaries, Ty::Tuple { fields, .. } => fields.iter().all(|f| well_formed(&f.1, boundaries)), Ty::Partial { fields, .. } => fields.iter().all(|f| well_formed(&f.1, boundaries)), Ty::Union(ms) => ms.iter().all(|m| well_formed(m, boundaries + 1)), Ty::Fn(p, r) => !has_cycle(p) && !has_cycle(r), _ => true }
}

pub fn check(rep: &Report) {
    let quick = rep.quick();
    let n = if quick { 160_000 } else { 900_000 };
    let b = qv::builtins();
    crate::pool::run_indexed(n, 64, |i| {
        let mut rng = Rng::derive(rep.seed, "C09", 0, i as u64);
        let ap = gen_program(&mut rng);
        if !ap.aliases.iter().all(|t| well_formed(t, 0)) { rep.count("generator_rejects_ill_formed", 1); return; }
        let Ok(Ok(cp)) = std::panic::catch_unwind(|| qv::compile(&ap.src, &b)) else { rep.count("not_accepted_by_front_end(skipped)", 1); return; };
        let ids: Vec<usize> = (0..ap.aliases.len()).filter_map(|k| match cp.bindings.get(&format!("t{}", k)) { Some(Binding::TypeAlias(d)) => Some(d.type_id), _ => None }).collect();
        if ids.len() != ap.aliases.len() { rep.count("alias_ids_missing(skipped)", 1); return; }
        rep.count("alias_programs", 1);
        if rep.want_sample() { rep.sample(json!({"alias_program": ap.src})); }
        let sem = Sem { aliases: &ap.aliases };
        let program = &cp.program;
        let mut scratch = program.clone();
        let depth = if quick { 3 } else { 4 };
        let enums: Vec<Vec<Val>> = ap.aliases.iter().map(|t| sem.enumerate(t, depth, 160)).collect();
        let any_recursive = ap.aliases.iter().any(|t| has_cycle_deep(t, &ap.aliases));
        let viol_q = |sig: &str, recursive: bool, what: String| rep.violation(Violation { signature: format!("C09:{}{}", sig, if recursive { ":recursive-types" } else { "" }), what: format!("{}\n--- aliases ---\n{}", what, ap.src), witness: json!({"source": ap.src}) });
        let viol = |sig: &str, what: String| viol_q(sig, any_recursive && sig == "not-transitive", what);
        let k = ap.aliases.len();
        // front-end cross-check: the compiled graph must admit exactly the source type's finite values
        for a in 0..k {
            if has_fn(&ap.aliases[a], &ap.aliases) { continue; }
            for v in enums.iter().flatten().take(400) {
                let s = sem.is_member(v, &ap.aliases[a]);
                match member_graph(v, ids[a], program, &mut vec![], 0) {
                    Some(g) => { rep.eval(1); if g != s { viol("front-end-graph-differs", format!("value {} is {} the type 't{} as written but {} the type graph the front end built for it ({})", v.show(), if s { "in" } else { "not in" }, a, if g { "in" } else { "not in" }, quiver_core::format::format_type_by_id(program, ids[a]))); break; } }
                    None => { rep.count("graph_membership_undecided(dangling cycle or callable)", 1); }
                }
            }
        }
        for a in 0..k {
            rep.eval(1);
            if !is_compatible(ids[a], ids[a], program) { viol("not-reflexive", format!("'t{} = {} is not assignable to itself", a, emit(&ap.aliases[a]))); }
            for bb in 0..k {
                if a == bb { continue; }
                rep.eval(1);
                let (ta, tb) = (&ap.aliases[a], &ap.aliases[bb]);
                let rec = has_cycle_deep(ta, &ap.aliases) || has_cycle_deep(tb, &ap.aliases);
                let viol = |sig: &str, what: String| viol_q(sig, rec || (any_recursive && sig == "not-transitive"), what);
                let compat = is_compatible(ids[a], ids[bb], program);
                let overlap = types_overlap(ids[a], ids[bb], program);
                rep.distinct(crate::rng::fnv64(format!("{} || {}", emit(ta), emit(tb)).as_bytes()));
                if compat { rep.count("pairs_deemed_assignable", 1); }
                // (1) assignability => containment
                if compat {
                    if let Some(v) = enums[a].iter().find(|v| !sem.is_member(v, tb)) {
                        viol("unsound-assignability", format!("is_compatible('t{a} = {}, 't{bb} = {}) = true, but the value {} is in the first and not in the second", emit(ta), emit(tb), v.show()));
                    } else { rep.count("assignable_pairs_confirmed_on_members", 1); }
                }
                // (2) overlap completeness
                let shared = enums[a].iter().chain(enums[bb].iter()).find(|v| sem.is_member(v, ta) && sem.is_member(v, tb));
                if let Some(v) = shared {
                    rep.count("pairs_with_a_shared_value", 1);
                    if !overlap { viol("overlap-incomplete", format!("types_overlap('t{a} = {}, 't{bb} = {}) = false, but the value {} is in both", emit(ta), emit(tb), v.show())); }
                }
                // (3) narrowing keeps values (closed, function-free types)
                if !has_fn(ta, &ap.aliases) && !has_fn(tb, &ap.aliases) {
                    let inter = quiver_compiler::compiler::verif::intersect_types(ids[a], ids[bb], &mut scratch);
                    let comp = quiver_compiler::compiler::verif::compute_complement(ids[a], ids[bb], &mut scratch);
                    for v in enums[a].iter().take(60) {
                        let in_b = sem.is_member(v, tb);
                        let (target, what) = if in_b { (inter, "intersect_types") } else { (comp, "compute_complement") };
                        match member_graph_narrowed(v, target, ids[a], &scratch) {
                            Some(true) => rep.count(if in_b { "intersection_keeps_value" } else { "complement_keeps_value" }, 1),
                            Some(false) => { viol(if in_b { "intersection-drops-value" } else { "complement-drops-value" }, format!("{}('t{a} = {}, 't{bb} = {}) = {} drops the value {} which is in 't{a} and {} 't{bb}", what, emit(ta), emit(tb), quiver_core::format::format_type_by_id(&scratch, target), v.show(), if in_b { "in" } else { "not in" })); break; }
                            None => rep.count("narrowing_result_undecided", 1),
                        }
                    }
                }
                // (4) transitivity on triples through bb
                if compat { for c in 0..k { if c != a && c != bb && is_compatible(ids[bb], ids[c], program) { rep.eval(1); rep.count("transitivity_triples", 1); if !is_compatible(ids[a], ids[c], program) { viol("not-transitive", format!("'t{a} -> 't{bb} and 't{bb} -> 't{c} are assignable but 't{a} -> 't{c} is not")); } } } }
            }
        }
    });
}

pub const RULE: &str = "programs of 2-6 type aliases in source syntax over 'int, 'bin, 'ref, tuple names {none,A,B,C}, labels {none,x,y}, arity <= 2, named/unnamed partials, unions (parenthesised under fields), tuple-guarded `^`/`^k` recursion, function types over closed components, references to earlier aliases, plus derived relatives (a union widened/narrowed, a tuple turned into a partial, a field widened); compiled by the real front end and the alias ids read from Compiled.bindings. For every ordered pair: is_compatible => every enumerated member of A (depth <= 3/4, exact membership under the source-level semantics) is a member of B; a shared enumerated value => types_overlap; members of A in/not in B must be in intersect_types / compute_complement (membership on the compiled graph); reflexivity; transitivity on triples; and a front-end cross-check (graph membership == source membership on enumerated values). distinct_nontrivial = distinct ordered (A, B) type-expression pairs judged";
pub const ASSUME: &[&str] = &["process types are excluded (their variance has no agreed value semantics)", "no union directly inside a union (boundary counting for ^k would be ambiguous)", "function-type membership is decided by enumeration on closed component types"];
pub const SITUATIONS: &[&str] = &["pairs_deemed_assignable", "assignable_pairs_confirmed_on_members", "pairs_with_a_shared_value", "intersection_keeps_value", "complement_keeps_value", "transitivity_triples"];
