//! C10 — packaging steps preserve behaviour: as compiled == tree-shaken == JSON round trip == merged after other programs,
//! `quiv run` == `quiv compile` + `quiv run`, and `%m` == the module body evaluated in place.
//!
//! The monitor is a differential one over real executions: every accepted program of the workload is executed through
//! each packaging path on the real worker/environment and the canonical outcomes (value with function indices erased,
//! or error kind, or the fates of all processes for process programs) must be identical.
use crate::c02::Gen;
use crate::procsys::*;
use crate::qv::{self, CV};
use crate::report::{Report, Violation};
use crate::rng::Rng;
use crate::simnet::*;
use quiver_core::bytecode::Bytecode;
use serde_json::json;
use std::collections::{BTreeMap, HashMap};

fn norm(cv: &CV) -> CV { crate::refsem::normalize_cv(cv) }

/// canonical outcome of running `mine` after `others` have been merged (and run) in the same environment
pub fn outcome(others: &[Bytecode], mine: &Bytecode, b: &qv::Builtins) -> Result<BTreeMap<String, String>, String> {
    let mut sim = Sim::new(2, b, false, None);
    sim.set_logging(false);
    let mut rng = Rng::new(1);
    for o in others {
        let r = std::panic::catch_unwind(std::panic::AssertUnwindSafe(|| start_program(&mut sim, o.clone())));
        match r { Ok(Ok(_)) => {} Ok(Err(e)) => return Err(format!("merging an earlier program failed: {}", e)), Err(p) => return Err(format!("merging an earlier program panicked: {}", crate::pool::panic_msg(&p))) }
        let _ = sim.run(Strategy::Eager, QuantumPolicy::Fixed(1000), &mut rng, 600, &|| false, &mut |_s| false);
    }
    let st = match std::panic::catch_unwind(std::panic::AssertUnwindSafe(|| start_program(&mut sim, mine.clone()))) { Ok(Ok(st)) => st, Ok(Err(e)) => return Err(format!("start failed: {}", e)), Err(p) => return Err(format!("start panicked: {}", crate::pool::panic_msg(&p))) };
    let end = sim.run(Strategy::Eager, QuantumPolicy::Fixed(1000), &mut rng, 4000, &|| false, &mut |_s| false);
    if let RunEnd::Trouble(t) = &end { return Err(format!("{:?}", t)); }
    let mut out = BTreeMap::new();
    let root = poll_root(&mut sim, &st).map(|r| canon_root(&sim, &r, st.pid));
    out.insert("root".to_string(), match root { Some(Fate::Done(v)) => format!("value {}", norm(&v).show()), Some(Fate::Failed(e)) => format!("error {:?}", e), _ => "no result".to_string() });
    // only the processes of this program (logical names descend from its root "r"); earlier programs may have left theirs
    for (name, f) in fates(&sim, st.pid) { if name != "r" && name.starts_with('r') { out.insert(name, match f { Fate::Done(v) => format!("value {}", norm(&v).show()), Fate::Failed(e) => format!("error {:?}", e), Fate::Running => "running".into() }); } }
    Ok(out)
}

fn does_io(s: &str) -> bool { ["__file", "__tcp", "__stdio", "__timer", "__clock", "__sleep", "__random", "__env", "__process", "%file", "%fs", "%tcp", "%stdio", "%io", "%timer", "%time", "%net"].iter().any(|k| s.contains(k)) }

fn cli(args: &[&str], stdin: Option<&str>) -> Option<(bool, String)> {
    use std::io::Write;
    let bin = format!("{}/harness/target/repo-cli/debug/quiv", crate::report::verif_root());
    let mut c = std::process::Command::new("timeout");
    c.arg("20").arg(&bin).args(args).stdout(std::process::Stdio::piped()).stderr(std::process::Stdio::piped()).stdin(if stdin.is_some() { std::process::Stdio::piped() } else { std::process::Stdio::null() });
    let mut ch = c.spawn().ok()?;
    if let Some(s) = stdin { ch.stdin.take()?.write_all(s.as_bytes()).ok()?; }
    let o = ch.wait_with_output().ok()?;
    if o.status.code() == Some(124) { return None; }
    Some((o.status.success(), String::from_utf8_lossy(&o.stdout).trim().to_string()))
}

/// programs whose run-time type tests go through the type table in every way a packaging step can disturb: aliases of partial,
/// union, nested and recursive types tested against values built in other functions
fn type_test_template(rng: &mut Rng) -> String {
    let l = *rng.pick(&["x", "y", "k"]); let m = *rng.pick(&["a", "b"]);
    let (t1, v1, t2, v2) = if rng.chance(1, 2) { ("'int", rng.range(0, 9).to_string(), "'bin", "0x00".to_string()) } else { ("'bin", "0x0102".to_string(), "'int", rng.range(0, 9).to_string()) };
    match rng.below(6) {
        0 => format!("'h = ({l}: {t1})\nf = #(P[{l}: {t1}] | Q[{l}: {t2}]) {{ | ='h => 1 | 2 }},\n[P[{l}: {v1}] f, Q[{l}: {v2}] f]"),
        1 => format!("'h = P({l}: {t1})\nmk = #'int {{ | =0 => P[{m}: 1, {l}: {v1}] | =1 => P[{l}: {v2}, {m}: 2] | Q[{l}: {v1}] }},\nf = #(P[{m}: 'int, {l}: {t1}] | P[{l}: {t2}, {m}: 'int] | Q[{l}: {t1}]) {{ | ='h => 1 | 2 }},\n[0 mk f, 1 mk f, 2 mk f]"),
        2 => format!("'u = A[{t1}] | B[{t2}, {t1}]\n'w = [{l}: 'u, {m}: {t2}]\nmk = #'int {{ | =0 => [{l}: A[{v1}], {m}: {v2}] | [{l}: B[{v2}, {v1}], {m}: {v2}] }},\ng = #([{l}: (A[{t1}] | B[{t2}, {t1}] | C), {m}: {t2}]) {{ | ='w => 1 | 2 }},\n[0 mk g, 1 mk g, [{l}: C, {m}: {v2}] g]"),
        3 => format!("'list = Nil | Cons[{t1}, ^]\nmk = #'int {{ | =0 => Nil | =1 => Cons[{v1}, Nil] | Cons[{v1}, Cons[{v1}, Nil]] }},\nf = #(Nil | Cons[{t1}, 'list] | Other) {{ | ='list => 1 | 2 }},\n[0 mk f, 1 mk f, 2 mk f, Other f]"),
        4 => format!("'h = ({l}: ({m}: {t1}))\nf = #(P[{l}: Q[{m}: {t1}]] | P[{l}: Q[{m}: {t2}]]) {{ | =('h)w => w.{l}.{m} | 0x7f }},\n[P[{l}: Q[{m}: {v1}]] f, P[{l}: Q[{m}: {v2}]] f]"),
        _ => format!("'p = ({l}: {t1}) | R[{t2}]\nbuild = #'int {{ | =0 => S[{l}: {v1}] | =1 => R[{v2}] | S[{l}: {v2}] }},\nf = #(S[{l}: {t1}] | R[{t2}] | S[{l}: {t2}]) {{ | ='p => 1 | 2 }},\n[0 build f, 1 build f, 2 build f]"),
    }
}

/// a module: bindings, then a record of some of them (values and functions)
fn gen_module(rng: &mut Rng) -> (String, Vec<(String, bool)>) {
    let mut g = Gen::new(rng, 16);
    let body = g.program();
    // the generated program ends in a tuple of its variables: replace that final step by a labelled record
    let cut = body.rfind(|c| c == '\n' || c == ',').map(|_| ()).is_some();
    let _ = cut;
    let steps: Vec<&str> = split_top(&body);
    let mut names: Vec<(String, bool)> = vec![];
    for s in &steps[..steps.len().saturating_sub(1)] { if let Some(eq) = s.find(" = ") { let n = s[..eq].trim(); if n.chars().all(|c| c.is_alphanumeric()) && n.starts_with('v') { names.push((n.to_string(), s[eq + 3..].trim_start().starts_with('#'))); } } }
    let mut rec: Vec<String> = names.iter().map(|(n, is_fn)| if *is_fn { format!("{}: &{}", n, n) } else { format!("{}: {}", n, n) }).collect();
    if rec.is_empty() { rec.push("k: 7".into()); names.push(("k".into(), false)); }
    let mut src = steps[..steps.len().saturating_sub(1)].join(",\n");
    if !src.is_empty() { src += ",\n"; }
    src += &format!("[{}]", rec.join(", "));
    (src, names)
}

/// split a generated program at its top-level step separators
pub fn split_top(src: &str) -> Vec<&str> {
    let mut out = vec![]; let mut depth = 0i32; let mut in_str = false; let mut start = 0; let b = src.as_bytes();
    let mut i = 0;
    while i < b.len() {
        let c = b[i] as char;
        if in_str { if c == '\\' { i += 2; continue; } if c == '"' { in_str = false; } if c == '{' { depth += 1; in_str = false; /* hole */ } i += 1; continue; }
        match c { '"' => in_str = true, '{' | '[' | '(' => depth += 1, '}' | ']' | ')' => depth -= 1, ',' | '\n' if depth == 0 => { out.push(src[start..i].trim()); start = i + 1; } _ => {} }
        i += 1;
    }
    out.push(src[start..].trim());
    out.into_iter().filter(|s| !s.is_empty()).collect()
}

pub fn check(rep: &Report) {
    let quick = rep.quick();
    let b = qv::builtins();
    let items: Vec<crate::corpus::Item> = crate::corpus::load("/repo").into_iter().filter(|i| i.origin.starts_with("tests/") || i.origin.starts_with("docs")).collect();
    let n_gen = if quick { 6_000 } else { 150_000 };
    let n_scen = if quick { 600 } else { 15_000 };
    let n_imp = if quick { 2_000 } else { 50_000 };
    let n_cli = if quick { 160 } else { 3_000 };
    let total = items.len() + n_gen + n_scen + n_imp + n_cli;
    let have_cli = std::path::Path::new(&format!("{}/harness/target/repo-cli/debug/quiv", crate::report::verif_root())).exists();
    if !have_cli { rep.inconclusive(json!({"why": "quiv binary not built; CLI family skipped"})); }
    // every run in a job is capped by scheduler actions; a job that still runs for ten minutes has left the program's own
    // behaviour (the as-compiled run finished within the cap): report it instead of hanging
    crate::pool::set_hard_limit(600, "C10");
    let watch = crate::pool::Watch::new("C10", 60);
    crate::pool::run_indexed(total, 256, |j| {
        let mut rng = Rng::derive(rep.seed, "C10", 0, j as u64);
        let viol = |kind: &str, what: String, w: serde_json::Value| rep.violation(Violation { signature: format!("C10:{}", kind), what, witness: w });
        // ---------------- import == in place
        if j >= items.len() + n_gen + n_scen && j < items.len() + n_gen + n_scen + n_imp {
            let (module, names) = gen_module(&mut rng);
            let (n, is_fn) = names[rng.below(names.len())].clone();
            let use_expr = if is_fn { format!("&m.{} =g, 1", n) } else { format!("m.{}", n) };
            let forms: Vec<(String, String)> = vec![
                (format!("m = %lib, [m, {}]", use_expr), format!("m = [] {{ {} }}, [m, {}]", module, use_expr)),
                (format!("x = %lib.{}, [x, x]", n).replace("x = %lib", if is_fn { "x = &%lib" } else { "x = %lib" }), format!("m = [] {{ {} }}, x = {}m.{}, [x, x]", module, if is_fn { "&" } else { "" }, n)),
            ];
            let (imp, inl) = forms[rng.below(forms.len())].clone();
            let mut mods = HashMap::new(); mods.insert(vec!["lib".to_string()], module.clone());
            watch.enter(j, &imp);
            let a = crate::pool::catch(|| qv::compile_with(&imp, Some(mods.clone()), &b).ok().map(|cp| outcome(&[], &cp.program.to_bytecode(Some(cp.entry)), &b)));
            let c = crate::pool::catch(|| qv::compile(&inl, &b).ok().map(|cp| outcome(&[], &cp.program.to_bytecode(Some(cp.entry)), &b)));
            watch.leave(j);
            match (a, c) {
                (Ok(Some(Ok(x))), Ok(Some(Ok(y)))) => { rep.eval(1); rep.count("import_vs_in_place_compared", 1); if is_fn { rep.count("import_of_a_function_member", 1); } if x != y { viol("import-differs-from-in-place", format!("importing differs from evaluating the module body in place: {:?} vs {:?}", x, y), json!({"module": module, "importing": imp, "in_place": inl, "import_outcome": x, "in_place_outcome": y})); } }
                (Ok(None), Ok(None)) => rep.count("import_pair_rejected_both", 1),
                (Ok(None), Ok(Some(_))) | (Ok(Some(_)), Ok(None)) => rep.count("import_pair_acceptance_differs(not judged: block scoping differs from module scoping)", 1),
                _ => rep.count("import_pair_inconclusive", 1),
            }
            return;
        }
        // ---------------- CLI: run == compile + run == in-process
        if j >= items.len() + n_gen + n_scen + n_imp {
            if !have_cli { return; }
            let src = if rng.chance(1, 2) { items[rng.below(items.len())].src.clone() } else { let mut g = Gen::new(&mut rng, 16); g.program() };
            if src.contains('@') || src.contains('!') || does_io(&src) || src.contains("%ref") || src.contains("&.") { rep.count("cli_skipped_process_or_io_program", 1); return; }
            // `quiv run` wants a program that evaluates to a function: wrap it (a block cannot declare aliases)
            if src.lines().any(|l| l.trim_start().starts_with('\'')) || src.contains(", '") { rep.count("cli_skipped_program_with_type_aliases", 1); return; }
            // two ways of handing the program to the CLI: wrapped whole in a function, or with its steps at the top level (run
            // when the entry function is extracted) and a closure over them as the entry; the second goes through the CLI's own
            // top-level compile path
            let top_level = rng.chance(1, 2);
            let src = if top_level && rng.chance(1, 3) { crate::c01::ill_mutate(&src, &mut rng) } else { src };
            // the value flowing into the first top-level step is nil: a first step that uses `~` at another type must be rejected
            let src = if top_level && rng.chance(1, 4) { rep.count("cli_first_step_uses_the_top_level_flowing_value", 1); format!("{},\n{}", *rng.pick(&["[~, 1] __integer_add__", "~ __binary_length__", "[~, 0x01] __binary_concat__", "q0 = [~, 2] __integer_multiply__", "~ =z0, [z0, 1] __integer_subtract__"]), src) } else { src };
            let wrapped = if top_level { let steps = split_top(&src); if steps.len() < 2 || steps[steps.len() - 1].contains('~') { return; } /* inside the entry function `~` is the function's own (nil) parameter, not the previous step */ format!("{},\n#{{ {}\n}}", steps[..steps.len() - 1].join(",\n"), steps[steps.len() - 1]) } else { format!("#{{ {}\n}}", src) };   // (newline: the source may end in a `//` comment)
            if top_level {
                // acceptance must agree between the library and the CLI
                let lib_ok = qv::compile(&src, &b).is_ok();
                let qx = format!("{}/harness/target/c10a-{}-{}.qx", crate::report::verif_root(), std::process::id(), j);
                let cli_ok = cli(&["compile", "-e", &wrapped, "-o", &qx], None).map(|r| r.0);
                std::fs::remove_file(&qx).ok();
                if let Some(cli_ok) = cli_ok { rep.eval(1); rep.count("cli_acceptance_compared_with_library", 1); if !lib_ok { rep.count("cli_acceptance_compared_on_a_rejected_program", 1); }
                    // (a top-level step that evaluates to nil makes the CLI fail to find an entry function: only judged when the library rejects)
                    if !lib_ok && cli_ok { viol("cli-accepts-what-the-library-rejects", format!("`quiv compile` accepted a program the library compiler rejects ({:?})", qv::compile(&src, &b).err()), json!({"program": src, "cli_source": wrapped})); return; } }
            }
            let Ok(cp) = qv::compile(&src, &b) else { return };
            if top_level { rep.count("cli_top_level_programs", 1); }
            watch.enter(j, &src);
            let direct = cli(&["run", "-e", &wrapped], None);
            let qx = format!("{}/harness/target/c10-{}-{}.qx", crate::report::verif_root(), std::process::id(), j);
            let compiled = cli(&["compile", "-e", &wrapped, "-o", &qx], None).and_then(|(ok, _)| if ok { cli(&["run", &qx], None) } else { Some((false, String::new())) });
            std::fs::remove_file(&qx).ok();
            watch.leave(j);
            let (Some(d), Some(c)) = (direct, compiled) else { rep.count("cli_timeout", 1); return };
            rep.eval(1); rep.count("cli_run_vs_compile_then_run", 1);
            if d != c { viol("cli-compile-run-differs", format!("`quiv run -e` printed {:?} but `quiv compile` + `quiv run` printed {:?}", d, c), json!({"program": src, "run": d.1, "compile_then_run": c.1})); return; }
            // the printed value is itself a program: evaluate it in-process and compare with the in-process result
            let mine = outcome(&[], &cp.program.to_bytecode(Some(cp.entry)), &b);
            if let (true, Ok(m)) = (d.0, &mine) { if let Some(v) = m.get("root").and_then(|s| s.strip_prefix("value ")) {
                if !d.1.contains('<') && !d.1.is_empty() { match qv::compile(&d.1, &b).ok().map(|cp2| outcome(&[], &cp2.program.to_bytecode(Some(cp2.entry)), &b)) { Some(Ok(o2)) => { rep.count("cli_output_reevaluated_and_compared_with_in_process_value", 1); if o2.get("root").map(|s| s.as_str()) != Some(&format!("value {}", v)) { viol("cli-differs-from-library", format!("`quiv run` printed {} which evaluates to {:?}; the in-process run gave {}", d.1, o2.get("root"), v), json!({"program": src, "cli": d.1, "in_process": v})); } } _ => rep.count("cli_output_not_reevaluable", 1) } }
            } }
            // (a nil result is exit status 1 with no output, by design)
            if !d.0 && !top_level && matches!(&mine, Ok(m) if m.get("root").map(|s| s.starts_with("value") && s != "value []").unwrap_or(false)) { viol("cli-fails-where-library-succeeds", format!("`quiv run -e` failed but the in-process run produced {:?}", mine), json!({"program": src})); }
            return;
        }
        // ---------------- packaging paths
        let (family, src): (&str, String) = if j < items.len() { ("corpus", items[j].src.clone()) }
            else if j < items.len() + n_gen && j % 6 == 0 { ("type-test-templates", type_test_template(&mut rng)) }
            else if j < items.len() + n_gen && j % 6 == 1 { let mut g = Gen::new(&mut rng, 16); g.allow_partial_params = true; ("generated", g.program()) }
            else if j < items.len() + n_gen { let fuel = *rng.pick(&[8i64, 16, 30]); let mut g = Gen::new(&mut rng, fuel); ("generated", g.program()) }
            else { let cfg = crate::scen::GenCfg { max_nodes: 6, max_depth: 3, confluent: true, fail_permille: 100, binaries: true }; ("process-scenarios", crate::scen::generate(&mut rng, &cfg).emit()) };
        let Ok(Ok(cp)) = std::panic::catch_unwind(|| qv::compile(&src, &b)) else { rep.count(&format!("{}_not_accepted", family), 1); return; };
        watch.enter(j, &src);
        let plain = cp.program.to_bytecode(Some(cp.entry));
        let shaken = cp.program.to_bytecode_optimized(cp.entry);
        let base = outcome(&[], &plain, &b);
        let Ok(base) = base else { watch.leave(j); rep.count("base_run_inconclusive", 1); return; };
        if base.get("root").map(|s| s == "no result").unwrap_or(true) && family != "process-scenarios" { watch.leave(j); rep.count("base_run_did_not_finish", 1); return; }
        rep.count(&format!("{}_programs", family), 1); rep.distinct(crate::rng::fnv64(src.as_bytes()));
        let mut check_path = |name: &str, r: Result<BTreeMap<String, String>, String>| {
            rep.eval(1); rep.count(&format!("path={}", name), 1);
            match r { Ok(o) => if o.get("root").map(|s| s == "no result").unwrap_or(false) && family != "process-scenarios" { rep.count("path_run_did_not_finish_within_the_cap(inconclusive)", 1); } else if o != base { viol(&format!("{}-differs", name), format!("outcome after {} differs from the outcome as compiled: {:?} vs {:?}", name, o, base), json!({"family": family, "program": src, "path": name, "as_compiled": base, "this_path": o})); }, Err(e) => viol(&format!("{}-fails", name), format!("{} could not be run: {}", name, e), json!({"family": family, "program": src, "path": name})) }
        };
        check_path("tree-shake", outcome(&[], &shaken, &b));
        for (nm, bc) in [("json-round-trip", &plain), ("json-round-trip-of-tree-shaken", &shaken)] {
            match serde_json::to_string(bc).ok().and_then(|s| serde_json::from_str::<Bytecode>(&s).ok()) { Some(back) => check_path(nm, outcome(&[], &back, &b)), None => viol("json-round-trip-fails", "bytecode does not survive serde_json".into(), json!({"program": src})) }
        }
        // merged after 1-4 other programs (each plain or shaken), the program itself plain or shaken
        let rounds = if quick { 1 } else { 2 };
        for _ in 0..rounds {
            let n_other = 1 + rng.below(4);
            let mut others = vec![];
            for _ in 0..n_other {
                let s = if rng.chance(1, 2) { items[rng.below(items.len())].src.clone() } else { let mut g = Gen::new(&mut rng, 12); g.program() };
                if does_io(&s) { continue; }
                if let Ok(Ok(c2)) = std::panic::catch_unwind(|| qv::compile(&s, &b)) { others.push(if rng.chance(1, 2) { c2.program.to_bytecode(Some(c2.entry)) } else { c2.program.to_bytecode_optimized(c2.entry) }); }
            }
            // sometimes the program itself is already in the environment (deduplication of every table entry)
            if rng.chance(1, 4) { others.push(plain.clone()); rep.count("merged_after_a_copy_of_itself", 1); }
            let mine = if rng.chance(1, 2) { &shaken } else { &plain };
            rep.count(&format!("merged_after_{}_programs", others.len()), 1);
            check_path("merge", outcome(&others, mine, &b));
        }
        watch.leave(j);
        if rep.want_sample() && family == "generated" { rep.sample(json!({"family": family, "program": src, "outcome": base})); }
    });
}

pub const RULE: &str = "for every accepted program of the workload: canonical outcome (value with function indices erased / error / fates of all processes) as compiled == after tree_shake == after a serde_json round trip (plain and shaken) == when merged into an environment after 1-4 other programs (plain or shaken, sometimes including a copy of itself); `quiv run -e` prints what `quiv compile` + `quiv run` prints, and that text re-evaluates to the in-process value; `%lib` / `%lib.member` == the module body evaluated in place";
pub const ASSUME: &[&str] = &["outcomes are compared after erasing function indices (packaging renumbers them)", "CLI family: programs without processes or I/O, 20 s per invocation", "import family: module bodies without type aliases (a block cannot declare them)"];
pub const SITUATIONS: &[&str] = &["path=tree-shake", "path=json-round-trip", "path=merge", "merged_after_a_copy_of_itself", "import_vs_in_place_compared", "import_of_a_function_member", "cli_run_vs_compile_then_run", "cli_top_level_programs", "cli_acceptance_compared_on_a_rejected_program", "process-scenarios_programs", "corpus_programs", "generated_programs", "type-test-templates_programs"];
