//! C11 — REPL evaluation is equivalent to evaluating the lines as one program.
//!
//! A session monitor: every line's outcome in a real `Repl` (driven over SimNet, heap monitor on) is compared with the
//! value of the single program made of all accepted lines so far; a rejected line must leave the session as it was
//! (same variables, and every later line still agrees with the reference that never contained it).
use crate::c02::Gen;
use crate::c10::split_top;
use crate::procsys::*;
use crate::qv::{self, CV, RunOutcome};
use crate::report::{Report, Violation};
use crate::rng::Rng;
use crate::simnet::*;
use serde_json::json;
use std::collections::HashMap;

fn norm(cv: &CV) -> CV { crate::refsem::normalize_cv(cv) }

const REJECTS: &[(&str, &str)] = &[
    ("x = [", "parse"), ("}", "parse"), ("y = = 3", "parse"), ("[1, 2", "parse"),
    // rejected lines that are the first in the session to import a module (whatever the compiler cached for them must not leak)
    ("[%lib2.k, zz_undefined]", "compile"), ("5 %lib2.inc zz_undefined_fn", "compile"), ("[4, 2] %int.div nope_undefined", "compile"), ("Cons[1, Nil] %list.head nope_undefined", "compile"),
    ("zz_undefined", "compile"), ("[1, 0x01] __integer_add__", "compile"), ("q = undefined_fn_ 3", "compile"), ("5 ='no_such_alias", "compile"),
];

/// hand-written line material around the generated steps: aliases, functions over aliases, destructuring, shadowing, imports
fn extra_lines(rng: &mut Rng, k: usize) -> Vec<String> {
    let t = format!("t{}", k);
    match rng.below(10) {
        0 => vec![format!("'{} = A['int] | B['bin] | C", t), format!("f{} = #'{} {{ | =A[n] => n | =B[b] => b __binary_length__ | 0 }}", k, t), format!("[A[{}] f{}, B[0x0102] f{}, C f{}]", rng.range(0, 9), k, k, k)],
        1 => vec![format!("[a{}, b{}] = [{}, 0x0{}]", k, k, rng.range(0, 99), rng.below(9)), format!("[a{}, b{} __binary_length__] __integer_add__", k, k)],
        2 => vec![format!("s{} = {}", k, rng.range(0, 9)), format!("s{} = [s{}, s{}]", k, k, k), format!("s{} = [s{}.0, 1] __integer_add__", k, k), format!("s{}", k)],
        3 => vec![format!("m{} = %lib", k), format!("[m{}.k, 5 m{}.inc]", k, k), format!("(inc) = %lib, {} inc", rng.range(0, 9))],
        4 => vec![format!("c{} = {}", k, rng.range(1, 9)), format!("g{} = #'int {{ [~, c{}] __integer_multiply__ }}", k, k), format!("c{} = 100", k), format!("{} g{}", rng.range(0, 9), k)],
        // a line that short-circuits to nil before one of its bindings is stored; the session must survive it
        6 => vec![format!("n{} = {}", k, rng.range(0, 9)), format!("p{} = 1, {} =2, q{} = 3", k, rng.range(3, 9), k), format!("n{}", k), format!("[n{}, 1] __integer_add__", k)],
        // a line whose statements are separated by a type alias, the first of them nil: the bindings after the alias are skipped
        8 => vec![format!("d{} = {}", k, rng.range(0, 9)), format!("{} =2, 'z{} = 'int, e{} = 5", rng.range(3, 9), k, k), format!("d{}", k), format!("[d{}, 1] __integer_add__", k)],
        // an alias-only line between a value and a line that uses the previous result
        7 => vec![format!("{}", rng.range(1, 50)), format!("'u{} = 'int", k), "[~, 1] __integer_add__".to_string()],
        5 => vec![format!("[%lib2.k, {} %lib2.inc]", rng.range(0, 9)), format!("[{}, 2] %int.div", rng.range(2, 40)), "Cons[1, Cons[2, Nil]] %list.head".to_string()],
        _ => vec![format!("{}", rng.range(1, 50)), "[~, 1] __integer_add__".to_string(), "[~, ~]".to_string()],
    }
}

pub fn check(rep: &Report) {
    let quick = rep.quick();
    let b = qv::builtins();
    let sessions = if quick { 15_000 } else { 400_000 };
    let mut modules: HashMap<Vec<String>, String> = HashMap::new();
    modules.insert(vec!["lib".into()], "[k: 7, inc: #'int { [~, 1] __integer_add__ }]".into());
    modules.insert(vec!["lib2".into()], "[k: 0x0102, inc: #'int { [~, 2] __integer_add__ }]".into());
    let watch = crate::pool::Watch::new("C11", 60);
    crate::pool::run_indexed(sessions, 256, |j| {
        let mut rng = Rng::derive(rep.seed, "C11", 0, j as u64);
        // the lines of this session
        let mut steps: Vec<String> = vec![];
        let n_prog = 1 + rng.below(3);
        for k in 0..n_prog {
            if rng.chance(2, 3) { let fuel = *rng.pick(&[4i64, 8, 16]); let body = { let mut g = Gen::new(&mut rng, fuel); g.program() }; let renamed = rename(&body, j * 10 + k); for s in split_top(&renamed) { steps.push(s.to_string()); } }
            else { for l in extra_lines(&mut rng, k) { steps.push(l); } }
        }
        // group steps into lines (1-3 steps per line), and sprinkle rejected lines
        let mut lines: Vec<(String, bool)> = vec![];
        let mut i = 0;
        while i < steps.len() { let g = 1 + rng.below(3).min(steps.len() - i - 1); let mut grp = steps[i..i + g].to_vec(); if grp.iter().any(|s| s.starts_with('\'')) { grp.truncate(1); } let g = grp.len(); lines.push((grp.join(if rng.chance(1, 2) { ", " } else { "\n" }), false)); i += g; if rng.chance(1, 5) { lines.push((REJECTS[rng.below(REJECTS.len())].0.to_string(), true)); } }
        let workers = 1 + rng.below(3);
        let strat = *rng.pick(&[Strategy::Eager, Strategy::Uniform, Strategy::Lazy]);
        let mut sess = ReplSession::new(workers, &b, modules.clone());
        sess.sim.set_logging(false);
        sess.sim.heap_monitor = true;
        let mut accepted: Vec<String> = vec![];
        let mut after_nil = false;
        let transcript = std::cell::RefCell::new(Vec::<serde_json::Value>::new());
        let viol = |kind: &str, what: String| rep.violation(Violation { signature: format!("C11:{}", kind), what, witness: json!({"workers": workers, "strategy": format!("{:?}", strat), "transcript": *transcript.borrow()}) });
        watch.enter(j, &lines.iter().map(|l| l.0.clone()).collect::<Vec<_>>().join(" ⏎ "));
        for (line, expect_reject) in &lines {
            let vars_before = sess.repl.get_variables();
            let out = sess.eval(line, strat, &mut rng);
            transcript.borrow_mut().push(json!({"line": line, "outcome": format!("{:?}", out).chars().take(300).collect::<String>()}));
            if let Some(h) = &sess.sim.heap_violation { viol("heap-invariant", format!("heap monitor during a REPL session: {:?}", h)); break; }
            match &out {
                LineOutcome::Stuck(w) => { if w.contains("StepCap") || w.contains("Stopped") { rep.count("line_did_not_finish(inconclusive)", 1); } else { viol("session-trouble", format!("the session got stuck on line {:?}: {}", line, w)); } break; }
                LineOutcome::EnvError(e) => { viol("environment-error", format!("line {:?}: {}", line, e)); break; }
                LineOutcome::ParseError(_) | LineOutcome::CompileError(_) => {
                    rep.eval(1); rep.count(if *expect_reject { "injected_rejected_lines" } else { "generated_lines_rejected" }, 1);
                    // a rejected line leaves the session exactly as it was
                    if sess.repl.get_variables() != vars_before { viol("rejected-line-changed-variables", format!("after the rejected line {:?} the session's variables changed: {:?} -> {:?}", line, vars_before, sess.repl.get_variables())); break; }
                    // if the same text is also rejected as part of the whole program, fine; if the single program accepts it, the
                    // REPL and the compiler disagree on acceptance
                    if after_nil { continue; }
                    let joined = if accepted.is_empty() { line.clone() } else { format!("{}\n{}", accepted.join("\n"), line) };
                    // recorded finding: the REPL types the previous result with the nil a single program would have short-circuited on
                    if qv::compile_with(&joined, Some(modules.clone()), &b).is_ok() && line.contains('~') && format!("{:?}", out).contains("| [])") { viol("previous-result-keeps-nil-in-its-type", format!("the REPL rejected {:?} ({:?}) although the previous result was not nil and the same lines compile as one program", line, out)); break; }
                    // recorded finding (the C01/C02 type hole seen from the REPL): in one program a step `x = e` with e : T | [] leaves x narrowed
                    // to T for the later steps, while the REPL keeps the sound type T | [] for later lines — so a line that uses such an
                    // x at type T is rejected by the REPL only
                    if qv::compile_with(&joined, Some(modules.clone()), &b).is_ok() && vars_before.iter().any(|(n, t)| (t.contains("| []") || t.starts_with("[] |") || t.contains("([] |")) && line.contains(n.as_str())) { viol("program-narrows-a-maybe-nil-binding-the-repl-does-not", format!("the REPL rejected {:?} ({:?}); it uses a variable whose session type still contains nil, which the single program had narrowed away", line, out)); break; }
                    if qv::compile_with(&joined, Some(modules.clone()), &b).is_ok() && !line.starts_with('\'') { viol("repl-rejects-what-the-program-accepts", format!("the REPL rejected {:?} ({:?}) but the same lines compile as one program", line, out)); break; }
                    continue;
                }
                _ => {}
            }
            if *expect_reject { viol("accepted-a-line-that-should-be-rejected", format!("line {:?} was accepted: {:?}", line, out)); break; }
            if after_nil { rep.eval(1); rep.count("lines_after_a_nil_line_checked_for_liveness", 1); if matches!(out, LineOutcome::RuntimeError(_)) { break; } continue; }
            accepted.push(line.clone());
            // reference: all accepted lines as one program
            let joined = accepted.join("\n");
            let reference = match qv::compile_with(&joined, Some(modules.clone()), &b) { Ok(cp) => run_capped(&cp.program.to_bytecode(Some(cp.entry)), &b, 4000), Err(e) => { viol("program-rejects-what-the-repl-accepts", format!("the REPL accepted every line but the joined program is rejected: {:?}", e)); break; } };
            rep.eval(1); rep.count("lines_compared_with_the_joined_program", 1);
            let agree = match (&out, &reference) {
                (LineOutcome::NoValue, _) => { rep.count("alias_only_lines", 1); true }
                (LineOutcome::Value(v), RunOutcome::Value(r)) => norm(v) == norm(r),
                (LineOutcome::RuntimeError(_), RunOutcome::Error(_)) => true,
                (_, RunOutcome::Panic(_)) => { rep.count("reference_did_not_finish(inconclusive)", 1); true }
                _ => false,
            };
            if !agree { viol("line-differs-from-joined-program", format!("line {:?} gave {:?} in the REPL; the program of all lines so far gives {:?}", line, out, reference)); break; }
            if matches!(out, LineOutcome::RuntimeError(_)) { rep.count("sessions_ended_by_a_runtime_error", 1); break; }
            // a nil line would short-circuit the single program: the value comparison ends here, but the session itself must go
            // on working — the remaining lines are evaluated for liveness only (no trouble, no environment error, heap invariants)
            if matches!(&out, LineOutcome::Value(v) if v.is_nil()) { rep.count("sessions_with_a_nil_line", 1); after_nil = true; }
            if line.contains(" = ") && accepted.iter().filter(|a| a.split(" = ").next() == line.split(" = ").next()).count() > 1 { rep.count("shadowing_lines", 1); }
            if line.starts_with('~') || line.contains("[~") { rep.count("lines_using_the_previous_result", 1); }
        }
        watch.leave(j);
        rep.distinct(crate::rng::fnv64(lines.iter().map(|l| l.0.clone()).collect::<Vec<_>>().join("\n").as_bytes()));
        rep.count("sessions", 1); rep.count(&format!("workers={}", workers), 1);
        rep.count("heap_checks_during_sessions", sess.sim.heap_checks as u64);
        if rep.want_sample() { rep.sample(json!({"lines": lines.iter().map(|l| l.0.clone()).collect::<Vec<_>>()})); }
    });
}

/// make the variable names of a generated program unique within the session
fn rename(src: &str, salt: usize) -> String {
    let b: Vec<char> = src.chars().collect();
    let mut out = String::new(); let mut i = 0; let mut in_str = false;
    while i < b.len() {
        let c = b[i];
        if c == '"' { in_str = !in_str; }
        if !in_str && c == 'v' && i + 1 < b.len() && b[i + 1].is_ascii_digit() && (i == 0 || !(b[i - 1].is_alphanumeric() || b[i - 1] == '_')) {
            let mut k = i + 1; while k < b.len() && b[k].is_ascii_digit() { k += 1; }
            out += &format!("v{}_{}", salt, b[i + 1..k].iter().collect::<String>());
            i = k; continue;
        }
        out.push(c); i += 1;
    }
    out
}

pub const RULE: &str = "for every session: each accepted line's REPL outcome == the outcome of the single program consisting of all accepted lines so far (value with function indices erased / runtime error), until a line evaluates to nil; a rejected line (injected parse and compile errors, or a generated line the compiler rejects) leaves get_variables() unchanged and is also rejected as the tail of the single program; heap invariants hold after every scheduler action of the session";
pub const ASSUME: &[&str] = &["lines come from the C02 generator's top-level steps (1-3 steps per line, renamed apart), hand-written alias / destructuring / shadowing / import / closure-capture / previous-result lines, and injected rejected lines", "sessions run on 1-3 workers under eager, uniform and lazy schedules with mixed quanta"];
pub const SITUATIONS: &[&str] = &["lines_compared_with_the_joined_program", "injected_rejected_lines", "alias_only_lines", "shadowing_lines", "lines_using_the_previous_result", "lines_after_a_nil_line_checked_for_liveness", "heap_checks_during_sessions", "workers=1", "workers=3"];
