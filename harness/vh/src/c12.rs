//! C12 — builtins are total and agree with simple reference models.
//!
//! Parent/child design: cases are a deterministic function of (seed, index). Children (one per
//! shard and build profile) execute them and print `CASE i` before and `RES i ...` after each;
//! if a child dies (abort, stack overflow, OOM) or stalls, the parent attributes it to the last
//! `CASE` it announced and restarts after it.
use crate::qv::{self, E};
use crate::report::{Report, Violation};
use crate::rng::Rng;
use num_bigint::{BigInt, Sign};
use num_integer::Integer;
use num_traits::{One, Signed, ToPrimitive, Zero};
use quiver_core::binary::BinaryData;
use quiver_core::builtins::BuiltinResult;
use quiver_core::executor::Executor;
use quiver_core::value::{Binary, Value};
use serde_json::json;
use std::io::{BufRead, BufReader, Write};
use std::rc::Rc;

pub const MAX: usize = 16 * 1024 * 1024;

#[derive(Clone, Debug, PartialEq)]
pub enum MVal {
    Int(BigInt),
    Bin(Vec<u8>),
    Nil,
}

#[derive(Clone, Debug, PartialEq)]
pub enum Expect {
    /// documented domain: must be exactly this value
    Value(MVal),
    /// outside the documented domain: must be a clean runtime error
    Error,
    /// the documentation leaves it open: a clean error is fine, a value must equal this
    Either(MVal),
    /// any of these values (or, if the flag is set, an error)
    OneOf(Vec<MVal>, bool),
    /// totality only (f64 based)
    Total,
}

#[derive(Clone, Debug)]
pub enum Arg {
    Int(BigInt),
    /// content + shape seed (0 = flat Owned)
    Bin(Vec<u8>, u64),
    /// huge binary described by (length, fill pattern) to avoid carrying bytes around: Zeroed / Tiled
    BigZero(usize),
    BigTile(Vec<u8>, usize),
}

#[derive(Clone, Debug)]
pub struct Case {
    pub name: &'static str,
    pub args: Vec<Arg>,
    pub single: bool,
}

fn b(i: i64) -> BigInt { BigInt::from(i) }
fn pow2(n: u32) -> BigInt { BigInt::one() << n }

pub fn int_pool() -> Vec<BigInt> {
    let mut v: Vec<BigInt> = vec![];
    for i in [0i64, 1, 2, 3, 4, 5, 7, 8, 9, 15, 16, 31, 32, 33, 63, 64, 65, 127, 128, 255, 256, 1000, 65535, 65536] { v.push(b(i)); v.push(b(-i)); }
    for n in [31u32, 32, 63, 64, 127] { for d in [-1i64, 0, 1] { v.push(pow2(n) + d); v.push(-(pow2(n) + d)); } }
    v.push(BigInt::from(10).pow(30));
    v.push(-BigInt::from(10).pow(30));
    v.push(b(MAX as i64)); v.push(b(MAX as i64 + 1)); v.push(b(MAX as i64 - 1));
    v.sort(); v.dedup();
    v
}

fn rand_int(rng: &mut Rng, pool: &[BigInt]) -> BigInt {
    match rng.below(10) {
        0..=5 => rng.pick(pool).clone(),
        6 | 7 => b(rng.range(-20, 20)),
        _ => { let bits = 1 + rng.below(200); let bytes = rng.bytes(bits / 8 + 1); let mut x = BigInt::from_bytes_le(Sign::Plus, &bytes) >> (8 - bits % 8).min(7); if rng.chance(1, 2) { x = -x; } x }
    }
}

fn small_nat(rng: &mut Rng) -> BigInt { b(match rng.below(12) { 0 => 0, 1 => 1, 2 => 2, 3 => 7, 4 => 8, 5 => 9, 6 => 15, 7 => 16, 8 => 17, 9 => 63, 10 => 64, _ => rng.range(0, 40) }) }

fn rand_bytes(rng: &mut Rng) -> Vec<u8> {
    let len = match rng.below(14) { 0 => 0, 1 => 1, 2 => 2, 3 => 7, 4 => 8, 5 => 9, 6 => 15, 7 => 16, 8 => 17, 9 => 4096, 10 => rng.below(64), 11 => 32, _ => rng.below(24) };
    match rng.below(5) {
        0 => vec![0u8; len],
        1 => vec![0xff; len],
        2 => { let ul = 1 + rng.below(3); let unit = rng.bytes(ul); unit.iter().cycle().take(len).cloned().collect() }
        _ => { let alpha = [0u8, 1, 0x7f, 0x80, 0xff, 10, 0x41]; (0..len).map(|_| if rng.chance(1, 2) { *rng.pick(&alpha) } else { rng.next() as u8 }).collect() }
    }
}

fn rand_bin(rng: &mut Rng) -> Arg {
    match rng.below(40) {
        0 => Arg::BigZero(MAX),
        1 => Arg::BigZero(MAX - 1),
        2 => Arg::BigTile(vec![0xab, 0xcd], MAX / 2),
        3 => Arg::BigZero(MAX / 2 + 1),
        _ => { let bytes = rand_bytes(rng); let shape = if rng.chance(1, 4) { 0 } else { rng.next() | 1 }; Arg::Bin(bytes, shape) }
    }
}

/// Build a rope with exactly `bytes` as content, in a shape chosen by `seed`.
pub fn shape(bytes: &[u8], seed: u64, depth: usize) -> BinaryData {
    if seed == 0 || depth > 6 { return BinaryData::new(bytes.to_vec()); }
    let mut rng = Rng::new(seed);
    let n = bytes.len();
    let sub = |rng: &mut Rng, b: &[u8]| Rc::new(shape(b, rng.next() | 1, depth + 1));
    match rng.below(9) {
        0 => BinaryData::new(bytes.to_vec()),
        1 if bytes.iter().all(|x| *x == 0) => BinaryData::zeroed(n),
        2 => {
            // slice of a larger parent
            // the bytes just outside the window come from the same small pool the byte operands are drawn from (and from the
            // window's own bytes), so an off-by-one at either edge finds something to see
            let pre = rng.below(3); let post = rng.below(3);
            let pool = [0u8, 1, 0x41, 0x7f, 0x80, 0xff, 10];
            let mut edge = |rng: &mut Rng, k: usize| -> Vec<u8> { (0..k).map(|_| match rng.below(3) { 0 => *rng.pick(&pool), 1 if !bytes.is_empty() => bytes[rng.below(bytes.len())], _ => rng.next() as u8 }).collect() };
            let mut p = edge(&mut rng, pre); p.extend_from_slice(bytes); let tail = edge(&mut rng, post); p.extend(tail);
            let parent = sub(&mut rng, &p);
            BinaryData::slice(parent, pre, n).unwrap()
        }
        3 | 4 => { let k = rng.below(n + 1); BinaryData::concat(sub(&mut rng, &bytes[..k]), sub(&mut rng, &bytes[k..])) }
        5 => {
            // left-leaning spine, one byte at a time (what repeated push/append builds)
            let mut acc = BinaryData::new(vec![]);
            for x in bytes.iter().take(6000) { acc = BinaryData::concat(Rc::new(acc), Rc::new(BinaryData::new(vec![*x]))); }
            if n > 6000 { acc = BinaryData::concat(Rc::new(acc), Rc::new(BinaryData::new(bytes[6000..].to_vec()))); }
            acc
        }
        6 => {
            // right-leaning spine
            let mut acc = BinaryData::new(vec![]);
            for x in bytes.iter().rev().take(3000) { acc = BinaryData::concat(Rc::new(BinaryData::new(vec![*x])), Rc::new(acc)); }
            if n > 3000 { acc = BinaryData::concat(Rc::new(BinaryData::new(bytes[..n - 3000].to_vec())), Rc::new(acc)); }
            acc
        }
        7 => {
            // tiled if periodic
            for p in 1..=3usize { if n >= 2 * p && n % p == 0 && bytes.chunks(p).all(|c| c == &bytes[..p]) { return BinaryData::tiled(sub(&mut rng, &bytes[..p]), n / p); } }
            BinaryData::new(bytes.to_vec())
        }
        _ => { let k = rng.below(n + 1); let l = BinaryData::concat(sub(&mut rng, &bytes[..k]), Rc::new(BinaryData::new(vec![9, 9]))); let l = BinaryData::slice(Rc::new(l), 0, k).unwrap(); BinaryData::concat(Rc::new(l), sub(&mut rng, &bytes[k..])) }
    }
}

pub const SIGS: &[(&str, &str)] = &[
    ("integer_abs", "i"), ("integer_sqrt", "i"), ("integer_sin", "i"), ("integer_cos", "i"), ("integer_not", "i"), ("integer_popcount", "i"),
    ("integer_add", "ii"), ("integer_subtract", "ii"), ("integer_multiply", "ii"), ("integer_divide", "ii"), ("integer_modulo", "ii"), ("integer_gcd", "ii"), ("integer_compare", "ii"),
    ("integer_and", "ii"), ("integer_or", "ii"), ("integer_xor", "ii"), ("integer_shift", "ii"),
    ("binary_new", "i"), ("binary_length", "b"), ("binary_not", "b"), ("binary_popcount", "b"), ("binary_hash32", "b"), ("binary_hash64", "b"),
    ("binary_concat", "bb"), ("binary_and", "bb"), ("binary_or", "bb"), ("binary_xor", "bb"), ("binary_repeat", "bi"), ("binary_shift", "bi"),
    ("binary_slice", "bii"), ("binary_index", "bii"), ("binary_append", "bii"), ("binary_get", "biii"), ("binary_set", "biiii"),
    ("vector_add", "bbi"), ("vector_subtract", "bbi"), ("vector_multiply", "bbi"), ("vector_less_than", "bbi"), ("vector_equal", "bbi"), ("vector_greater_than", "bbi"), ("vector_dot", "bbi"),
    ("vector_take", "bib"), ("vector_get", "bii"), ("vector_push", "bii"), ("vector_sum", "bi"),
];

pub fn gen_case(seed: u64, index: u64) -> Case {
    let mut rng = Rng::derive(seed, "C12", 0, index);
    let pool = int_pool();
    let (name, sig) = SIGS[(index as usize) % SIGS.len()];
    let mut args: Vec<Arg> = vec![];
    let vectorish = name.starts_with("vector_");
    for (k, ch) in sig.chars().enumerate() {
        match ch {
            'i' => {
                // steer some integer positions towards their interesting ranges
                let v = match (name, k) {
                    ("binary_get", 1) | ("binary_set", 1) | ("binary_slice", _) | ("binary_index", 2) if rng.chance(2, 3) => small_nat(&mut rng),
                    ("binary_get", 2) | ("binary_set", 2) if rng.chance(4, 5) => b(rng.range(0, 7)),
                    ("binary_get", 3) | ("binary_set", 4) if rng.chance(4, 5) => b(*rng.pick(&[1i64, 7, 8, 9, 31, 32, 33, 56, 57, 63, 64])),
                    ("binary_index", 1) if rng.chance(3, 4) => b(*rng.pick(&[0i64, 1, 0x41, 0x7f, 0x80, 0xff, 10])),
                    ("binary_append", 2) if rng.chance(3, 4) => b(rng.range(1, 8)),
                    ("binary_repeat", 1) if rng.chance(1, 2) => small_nat(&mut rng),
                    ("binary_shift", 1) if rng.chance(1, 2) => b(rng.range(-70, 70)),
                    ("binary_new", 0) if rng.chance(1, 2) => small_nat(&mut rng),
                    (_, _) if vectorish && ((sig == "bbi" && k == 2) || (sig != "bbi" && k == 1)) && rng.chance(5, 6) => b(*rng.pick(&[4i64, 8])),
                    ("vector_get", 2) if rng.chance(1, 2) => b(rng.range(-1, 6)),
                    ("integer_shift", 1) if rng.chance(1, 2) => b(rng.range(-70, 70)),
                    _ => rand_int(&mut rng, &pool),
                };
                args.push(Arg::Int(v));
            }
            _ => {
                if vectorish && rng.chance(5, 6) {
                    // lane-aligned buffers, often of equal length
                    let lanes = rng.below(5);
                    let w = if rng.chance(1, 2) { 4 } else { 8 };
                    let len = if let (true, Some(Arg::Bin(prev, _))) = (rng.chance(3, 4), args.first()) { prev.len() } else { lanes * w };
                    let mut bytes = rng.bytes(len);
                    if rng.chance(1, 3) { for c in bytes.chunks_mut(w) { let v: i64 = *rng.pick(&[0i64, 1, -1, i32::MAX as i64, i32::MIN as i64, i64::MAX, i64::MIN, 2]); let le = v.to_le_bytes(); for (i, x) in c.iter_mut().enumerate() { *x = le[i]; } } }
                    if name == "vector_take" && k == 2 { if let Some(Arg::Bin(d, _)) = args.first() { bytes = (0..d.len() / 4).map(|_| if rng.chance(1, 2) { 0 } else { rng.next() as u8 }).collect(); if rng.chance(1, 2) { bytes.truncate(d.len() / 8); } } }
                    let sh = if rng.chance(1, 3) { 0 } else { rng.next() | 1 };
                    args.push(Arg::Bin(bytes, sh));
                } else { args.push(rand_bin(&mut rng)); }
            }
        }
    }
    Case { name, args, single: sig.len() == 1 }
}

// ---------------------------------------------------------------------------------------------
// Reference models


fn arg_bytes(a: &Arg) -> Vec<u8> {
    match a { Arg::Bin(b, _) => b.clone(), Arg::BigZero(n) => vec![0; *n], Arg::BigTile(u, c) => u.repeat(*c), Arg::Int(_) => panic!("not a binary") }
}
fn arg_len(a: &Arg) -> usize { match a { Arg::Bin(b, _) => b.len(), Arg::BigZero(n) => *n, Arg::BigTile(u, c) => u.len() * c, Arg::Int(_) => 0 } }
fn arg_int(a: &Arg) -> BigInt { match a { Arg::Int(i) => i.clone(), _ => panic!("not an int") } }

fn lanes(bytes: &[u8], w: usize) -> Vec<i64> {
    bytes.chunks(w).map(|c| if w == 4 { i32::from_le_bytes(c.try_into().unwrap()) as i64 } else { i64::from_le_bytes(c.try_into().unwrap()) }).collect()
}
fn fits(v: &BigInt, w: usize) -> bool { if w == 4 { v.to_i32().is_some() } else { v.to_i64().is_some() } }
fn pack(vs: &[BigInt], w: usize) -> Vec<u8> { let mut o = vec![]; for v in vs { if w == 4 { o.extend(v.to_i32().unwrap().to_le_bytes()); } else { o.extend(v.to_i64().unwrap().to_le_bytes()); } } o }

/// bit i (0 = MSB of byte 0) of a byte string
fn bit(bytes: &[u8], i: usize) -> u8 { (bytes[i / 8] >> (7 - i % 8)) & 1 }

pub fn model(c: &Case) -> Expect {
    use Expect::*;
    let a = &c.args;
    let int = |k: usize| arg_int(&a[k]);
    let in64 = |x: &BigInt| x.to_i64().is_some();
    match c.name {
        "integer_abs" => Value(MVal::Int(int(0).abs())),
        "integer_sqrt" => if int(0).is_negative() { Error } else { Value(MVal::Int(int(0).sqrt())) },
        "integer_sin" | "integer_cos" => Total,
        "integer_add" => Value(MVal::Int(int(0) + int(1))),
        "integer_subtract" => Value(MVal::Int(int(0) - int(1))),
        "integer_multiply" => Value(MVal::Int(int(0) * int(1))),
        "integer_divide" => if int(1).is_zero() { Error } else { let (x, y) = (int(0), int(1)); OneOf(vec![MVal::Int(&x / &y), MVal::Int(x.div_floor(&y))], false) },
        "integer_modulo" => if int(1).is_zero() { Error } else { let (x, y) = (int(0), int(1)); OneOf(vec![MVal::Int(&x % &y), MVal::Int(x.mod_floor(&y))], false) },
        "integer_gcd" => Value(MVal::Int(int(0).gcd(&int(1)))),
        "integer_compare" => Value(MVal::Int(b(match int(0).cmp(&int(1)) { std::cmp::Ordering::Less => -1, std::cmp::Ordering::Equal => 0, _ => 1 }))),
        // 64-bit bitwise family: documented as operating on 64-bit machine integers, erroring out of range
        "integer_and" | "integer_or" | "integer_xor" => {
            if !in64(&int(0)) || !in64(&int(1)) { return Error; }
            let (x, y) = (int(0).to_i64().unwrap(), int(1).to_i64().unwrap());
            Value(MVal::Int(b(match c.name { "integer_and" => x & y, "integer_or" => x | y, _ => x ^ y })))
        }
        "integer_not" => if !in64(&int(0)) { Error } else { Value(MVal::Int(-int(0) - 1)) },
        "integer_popcount" => if !in64(&int(0)) { Error } else { Value(MVal::Int(b((int(0).to_i64().unwrap() as u64).count_ones() as i64))) },
        "integer_shift" => {
            if !in64(&int(0)) || !in64(&int(1)) { return Error; }
            let (v, n) = (int(0), int(1).to_i64().unwrap());
            if n >= 0 {
                if n >= 64 { return Value(MVal::Int(b(0))); }
                // wraps to 64 bits (two's complement)
                let m = (&v << (n as usize)) & (pow2(64) - 1);
                let signed = if m >= pow2(63) { m - pow2(64) } else { m };
                Value(MVal::Int(signed))
            } else {
                let k = n.unsigned_abs();
                if k >= 64 { return Value(MVal::Int(b(if v.is_negative() { -1 } else { 0 }))); }
                Value(MVal::Int(v.div_floor(&pow2(k as u32))))
            }
        }
        "binary_new" => { let n = int(0); if n.is_negative() || n > b(MAX as i64) { Error } else { Value(MVal::Bin(vec![0; n.to_usize().unwrap()])) } }
        "binary_length" => Value(MVal::Int(b(arg_len(&a[0]) as i64))),
        "binary_not" => Value(MVal::Bin(arg_bytes(&a[0]).iter().map(|x| !x).collect())),
        "binary_popcount" => Value(MVal::Int(b(arg_bytes(&a[0]).iter().map(|x| x.count_ones() as i64).sum()))),
        "binary_hash32" => Value(MVal::Int(BigInt::from(arg_bytes(&a[0]).iter().fold(2166136261u32, |h, x| (h ^ *x as u32).wrapping_mul(16777619))))),
        "binary_hash64" => { let h = arg_bytes(&a[0]).iter().fold(14695981039346656037u64, |h, x| (h ^ *x as u64).wrapping_mul(1099511628211)); OneOf(vec![MVal::Int(BigInt::from(h)), MVal::Int(BigInt::from(h as i64))], false) }
        "binary_concat" => { if arg_len(&a[0]) + arg_len(&a[1]) > MAX { Error } else { let mut x = arg_bytes(&a[0]); x.extend(arg_bytes(&a[1])); Value(MVal::Bin(x)) } }
        "binary_and" | "binary_or" | "binary_xor" => {
            let (x, y) = (arg_bytes(&a[0]), arg_bytes(&a[1]));
            let n = if c.name == "binary_and" { x.len().min(y.len()) } else { x.len().max(y.len()) };
            let g = |v: &Vec<u8>, i: usize| v.get(i).copied().unwrap_or(0);
            let r: Vec<u8> = (0..n).map(|i| match c.name { "binary_and" => g(&x, i) & g(&y, i), "binary_or" => g(&x, i) | g(&y, i), _ => g(&x, i) ^ g(&y, i) }).collect();
            if x.len() == y.len() { Value(MVal::Bin(r)) } else { Either(MVal::Bin(r)) }
        }
        "binary_repeat" => {
            let k = int(1);
            if k.is_negative() { return Error; }
            let total = BigInt::from(arg_len(&a[0])) * &k;
            if total > b(MAX as i64) { return Error; }
            // an empty unit repeated any number of times is empty; counts beyond the machine word
            // are left open by the documentation
            match k.to_usize() { Some(ku) => Value(MVal::Bin(arg_bytes(&a[0]).repeat(ku))), None => Either(MVal::Bin(vec![])) }
        }
        "binary_shift" => {
            let bytes = arg_bytes(&a[0]);
            let n = int(1);
            let nbits = bytes.len() * 8;
            let out = if n.abs() >= b(nbits as i64) { if n.is_zero() { bytes.clone() } else { vec![0; bytes.len()] } } else {
                let k = n.abs().to_usize().unwrap();
                let mut o = vec![0u8; bytes.len()];
                for i in 0..nbits {
                    // left shift: output bit i = input bit i+k ; right shift: output bit i = input bit i-k
                    let src = if n.is_positive() { i.checked_add(k).filter(|s| *s < nbits) } else { i.checked_sub(k) };
                    if let Some(s) = src { if bit(&bytes, s) == 1 { o[i / 8] |= 1 << (7 - i % 8); } }
                }
                o
            };
            if in64(&n) { Value(MVal::Bin(out)) } else { Either(MVal::Bin(out)) }
        }
        "binary_slice" => {
            let (s, e) = (int(1), int(2));
            let len = b(arg_len(&a[0]) as i64);
            if s.is_negative() || e.is_negative() || s > len || e > len || s > e { Error } else { Value(MVal::Bin(arg_bytes(&a[0])[s.to_usize().unwrap()..e.to_usize().unwrap()].to_vec())) }
        }
        "binary_index" => {
            let (byte, off) = (int(1), int(2));
            if byte.is_negative() || byte > b(255) || off.is_negative() { return Error; }
            let bytes = arg_bytes(&a[0]);
            let r = match off.to_usize() { Some(o) if o < bytes.len() => bytes[o..].iter().position(|x| *x == byte.to_u8().unwrap()).map(|p| MVal::Int(b((p + o) as i64))).unwrap_or(MVal::Nil), _ => MVal::Nil };
            if off.to_usize().is_some() { Value(r) } else { Either(r) }
        }
        "binary_append" => {
            let (v, nb) = (int(1), int(2));
            if nb < b(1) || nb > b(8) || v.is_negative() { return Error; }
            let nb = nb.to_usize().unwrap();
            if v >= pow2(8 * nb as u32) { return Error; }
            if arg_len(&a[0]) + nb > MAX { return Error; }
            let mut out = arg_bytes(&a[0]);
            let (_, be) = v.to_bytes_be();
            out.extend(std::iter::repeat(0).take(nb - be.len().min(nb)));
            if !v.is_zero() { out.extend(be); } else { out.truncate(arg_len(&a[0])); out.extend(vec![0; nb]); }
            if v >= pow2(63) { Either(MVal::Bin(out)) } else { Value(MVal::Bin(out)) }
        }
        "binary_get" | "binary_set" => {
            let set = c.name == "binary_set";
            let (bo, bi, nb) = (int(1), int(2), int(if set { 4 } else { 3 }));
            if bo.is_negative() || bi.is_negative() || bi > b(7) || nb < b(1) || nb > b(64) { return Error; }
            let len_bits = BigInt::from(arg_len(&a[0])) * 8;
            let start: BigInt = &bo * 8 + &bi;
            let end: BigInt = &start + &nb;
            // the docs require the touched bytes to exist
            if end > len_bits { return Error; }
            let bytes = arg_bytes(&a[0]);
            let (start, nbu) = (start.to_usize().unwrap(), nb.to_usize().unwrap());
            if !set {
                let mut v = BigInt::zero();
                for i in 0..nbu { v = (v << 1) + bit(&bytes, start + i); }
                Value(MVal::Int(v))
            } else {
                let v = int(3);
                if v.is_negative() || v >= pow2(nbu as u32) { return Error; }
                let mut o = bytes.clone();
                for i in 0..nbu {
                    let bitv = ((&v >> (nbu - 1 - i)) & BigInt::one()).is_one();
                    let p = start + i;
                    if bitv { o[p / 8] |= 1 << (7 - p % 8); } else { o[p / 8] &= !(1 << (7 - p % 8)); }
                }
                if v >= pow2(63) { Either(MVal::Bin(o)) } else { Value(MVal::Bin(o)) }
            }
        }
        n if n.starts_with("vector_") => {
            let (wi, others): (usize, Vec<usize>) = match n { "vector_take" | "vector_get" | "vector_push" | "vector_sum" => (1, vec![0, 2]), _ => (2, vec![0, 1]) };
            let w = int(wi);
            if w != b(4) && w != b(8) { return Error; }
            let w = w.to_usize().unwrap();
            let x = arg_bytes(&a[0]);
            match n {
                "vector_add" | "vector_subtract" | "vector_multiply" | "vector_less_than" | "vector_equal" | "vector_greater_than" | "vector_dot" => {
                    let y = arg_bytes(&a[others[1]]);
                    if x.len() != y.len() || x.len() % w != 0 { return Value(MVal::Nil); }
                    let (lx, ly) = (lanes(&x, w), lanes(&y, w));
                    match n {
                        "vector_dot" => Value(MVal::Int(lx.iter().zip(&ly).map(|(p, q)| BigInt::from(*p) * *q).sum())),
                        "vector_less_than" | "vector_equal" | "vector_greater_than" => Value(MVal::Bin(lx.iter().zip(&ly).map(|(p, q)| u8::from(match n { "vector_less_than" => p < q, "vector_equal" => p == q, _ => p > q })).collect())),
                        _ => {
                            let rs: Vec<BigInt> = lx.iter().zip(&ly).map(|(p, q)| match n { "vector_add" => BigInt::from(*p) + *q, "vector_subtract" => BigInt::from(*p) - *q, _ => BigInt::from(*p) * *q }).collect();
                            if rs.iter().all(|r| fits(r, w)) { Value(MVal::Bin(pack(&rs, w))) } else { Value(MVal::Nil) }
                        }
                    }
                }
                "vector_sum" => if x.len() % w != 0 { Value(MVal::Nil) } else { Value(MVal::Int(lanes(&x, w).iter().map(|v| BigInt::from(*v)).sum())) },
                "vector_get" => { let i = int(2); if x.len() % w != 0 || i.is_negative() { return Value(MVal::Nil); } match i.to_usize().filter(|i| *i < x.len() / w) { Some(i) => Value(MVal::Int(b(lanes(&x, w)[i]))), None => Value(MVal::Nil) } }
                "vector_push" => { let v = int(2); if !fits(&v, w) || x.len() % w != 0 { return Value(MVal::Nil); } if x.len() + w > MAX { return Error; } let mut o = x.clone(); o.extend(pack(&[v], w)); Value(MVal::Bin(o)) }
                "vector_take" => { let m = arg_bytes(&a[2]); if x.len() % w != 0 || m.len() != x.len() / w { return Value(MVal::Nil); } let mut o = vec![]; for (i, s) in m.iter().enumerate() { if *s != 0 { o.extend_from_slice(&x[i * w..(i + 1) * w]); } } Value(MVal::Bin(o)) }
                _ => unreachable!(),
            }
        }
        _ => unreachable!("no model for {}", c.name),
    }
}

// ---------------------------------------------------------------------------------------------
// Execution (child side)

#[derive(Debug, Clone, PartialEq)]
pub enum Got {
    Val(MVal),
    /// value whose length disagrees with anything sensible to materialise: (claimed length)
    BinLen(usize),
    Err(String, bool), // message, stuck-kind?
    Panic(String),
}

fn build_arg(ex: &mut Executor<E>, a: &Arg) -> Value {
    match a {
        Arg::Int(i) => Value::Integer(i.clone()),
        Arg::Bin(bytes, sh) => Value::Binary(ex.allocate_binary_data(shape(bytes, *sh, 0)).unwrap()),
        Arg::BigZero(n) => Value::Binary(ex.allocate_binary_data(BinaryData::zeroed(*n)).unwrap()),
        Arg::BigTile(u, c) => Value::Binary(ex.allocate_binary_data(BinaryData::tiled(Rc::new(BinaryData::new(u.clone())), *c)).unwrap()),
    }
}

pub fn run_case(ex: &mut Executor<E>, reg: &qv::Builtins, c: &Case, expect_len: Option<usize>) -> Got {
    let f = reg.get_implementation(c.name).expect("builtin registered");
    let args: Vec<Value> = c.args.iter().map(|a| build_arg(ex, a)).collect();
    let arg = if c.single { args[0].clone() } else { Value::tuple(0, args) };
    let r = std::panic::catch_unwind(std::panic::AssertUnwindSafe(|| f(0, &arg, ex)));
    match r {
        Err(p) => Got::Panic(crate::pool::panic_msg(&p)),
        Ok(Err(e)) => Got::Err(format!("{:?}", e), qv::is_stuck_error(&e)),
        Ok(Ok(BuiltinResult::Action(_))) => Got::Err("unexpected action".into(), true),
        Ok(Ok(BuiltinResult::Value(v))) => match v {
            Value::Integer(i) => Got::Val(MVal::Int(i)),
            Value::Binary(Binary::Heap(i)) => {
                let d = ex.get_heap_binary(i).expect("heap slot");
                let len = d.len();
                if len > MAX || expect_len.map(|e| e != len).unwrap_or(false) { return Got::BinLen(len); }
                match std::panic::catch_unwind(std::panic::AssertUnwindSafe(|| d.to_vec())) { Ok(v) => Got::Val(MVal::Bin(v)), Err(p) => Got::Panic(format!("reading the result back: {}", crate::pool::panic_msg(&p))) }
            }
            Value::Tuple(0, fs) if fs.is_empty() => Got::Val(MVal::Nil),
            other => Got::Err(format!("unexpected result value {:?}", other), true),
        },
    }
}

fn verdict(exp: &Expect, got: &Got) -> Option<(&'static str, String)> {
    let val_ok = |m: &MVal| matches!(got, Got::Val(g) if g == m);
    match (exp, got) {
        (_, Got::Panic(m)) => Some(("panic", m.clone())),
        (_, Got::Err(m, true)) => Some(("type-error", format!("VM-level type failure for an argument of the declared type: {}", m))),
        (Expect::Total, _) => None,
        (Expect::Value(m), _) => if val_ok(m) { None } else if matches!(got, Got::Err(..)) { Some(("error-in-domain", format!("{:?}", got))) } else { Some(("wrong-value", show_got(got))) },
        (Expect::Error, Got::Err(..)) => None,
        (Expect::Error, _) => Some(("value-outside-domain", show_got(got))),
        (Expect::Either(m), _) => if val_ok(m) || matches!(got, Got::Err(..)) { None } else { Some(("wrong-value", show_got(got))) },
        (Expect::OneOf(ms, err_ok), _) => if ms.iter().any(|m| val_ok(m)) || (*err_ok && matches!(got, Got::Err(..))) { None } else { Some(("wrong-value", show_got(got))) },
    }
}

fn show_mval(m: &MVal) -> String { match m { MVal::Int(i) => i.to_string(), MVal::Nil => "[]".into(), MVal::Bin(b) => if b.len() > 40 { format!("<{} bytes, fnv {:x}>", b.len(), crate::rng::fnv64(b)) } else { qv::hex(b) } } }
fn show_got(g: &Got) -> String { match g { Got::Val(m) => show_mval(m), Got::BinLen(n) => format!("<binary claiming length {}>", n), o => format!("{:?}", o) } }
pub fn show_arg(a: &Arg) -> String { match a { Arg::Int(i) => i.to_string(), Arg::Bin(b, s) => format!("{}{}", if b.len() > 40 { format!("<{} bytes>", b.len()) } else { qv::hex(b) }, if *s == 0 { "".to_string() } else { format!("~shape{:x}", s % 0xffff) }), Arg::BigZero(n) => format!("<{} zero bytes>", n), Arg::BigTile(u, c) => format!("<{} x{}>", qv::hex(u), c) } }
pub fn show_case(c: &Case) -> String { format!("[{}] __{}__", c.args.iter().map(show_arg).collect::<Vec<_>>().join(", "), c.name) }
fn show_expect(e: &Expect) -> String { match e { Expect::Value(m) => show_mval(m), Expect::Either(m) => format!("error or {}", show_mval(m)), Expect::OneOf(ms, _) => ms.iter().map(show_mval).collect::<Vec<_>>().join(" or "), Expect::Error => "a clean runtime error".into(), Expect::Total => "any value".into() } }

/// Child entry: run cases [from, to) of shard arithmetic; prints CASE / RES lines.
pub fn child_main(seed: u64, from: u64, to: u64, stride: u64, offset: u64) {
    crate::pool::quiet_panics();
    let reg = qv::builtins();
    let out = std::io::stdout();
    let mut ex: Executor<E> = Executor::new(reg.clone(), false, 0);
    let mut i = from;
    let mut n = 0u64;
    while i < to {
        let idx = i * stride + offset;
        let c = gen_case(seed, idx);
        { let mut o = out.lock(); writeln!(o, "CASE {}", idx).ok(); o.flush().ok(); }
        let exp = model(&c);
        let expect_len = match &exp { Expect::Value(MVal::Bin(b)) | Expect::Either(MVal::Bin(b)) => Some(b.len()), _ => None };
        let t0 = std::time::Instant::now();
        let got = run_case(&mut ex, &reg, &c, expect_len);
        let ms = t0.elapsed().as_millis();
        // same content, another rope shape => same answer (checked by running the flat variant too)
        let mut shape_dep: Option<String> = None;
        if c.args.iter().any(|a| matches!(a, Arg::Bin(_, s) if *s != 0)) {
            let flat = Case { name: c.name, args: c.args.iter().map(|a| match a { Arg::Bin(b, _) => Arg::Bin(b.clone(), 0), o => o.clone() }).collect(), single: c.single };
            let got_flat = run_case(&mut ex, &reg, &flat, expect_len);
            let norm = |g: &Got| match g { Got::Err(..) => "error".to_string(), o => format!("{:?}", o) };
            if norm(&got) != norm(&got_flat) { shape_dep = Some(format!("rope-shaped argument gave {} but the flat argument of equal content gave {}", show_got(&got), show_got(&got_flat))); }
        }
        let v = verdict(&exp, &got);
        let kind = match (&exp, &got) { (_, Got::Err(..)) => "error", (_, Got::Val(MVal::Nil)) => "nil", _ => "value" };
        let line = match (&v, &shape_dep) {
            (Some((k, what)), _) => json!({"i": idx, "v": k, "what": what, "case": show_case(&c), "want": show_expect(&exp), "ms": ms as u64}),
            (None, Some(s)) => json!({"i": idx, "v": "shape-dependent", "what": s, "case": show_case(&c), "want": show_expect(&exp), "ms": ms as u64}),
            _ => json!({"i": idx, "k": kind, "ms": ms as u64, "z": match exp { Expect::Value(_) => "must", Expect::Error => "err", Expect::Total => "total", _ => "open" }}),
        };
        { let mut o = out.lock(); writeln!(o, "RES {}", line).ok(); }
        n += 1;
        if n % 500 == 0 { ex = Executor::new(reg.clone(), false, 0); }
        i += 1;
    }
}

// ---------------------------------------------------------------------------------------------
// Parent

fn profile_bin(profile: &str) -> String {
    let exe = std::env::current_exe().unwrap();
    let target = exe.parent().unwrap().parent().unwrap();
    format!("{}/{}/vcheck", target.display(), profile)
}

pub fn check(rep: &Report) {
    let quick = rep.quick();
    let per_shard: u64 = if quick { 4000 } else { 60000 };
    let shards: u64 = crate::pool::threads() as u64 / 2;
    let profiles = ["checked", "faithful"];
    let jobs: Vec<(usize, u64)> = profiles.iter().enumerate().flat_map(|(p, _)| (0..shards).map(move |s| (p, s))).collect();
    crate::pool::run_indexed(jobs.len(), 8, |j| {
        let (p, shard) = jobs[j];
        let profile = profiles[p];
        let bin = profile_bin(profile);
        if !std::path::Path::new(&bin).exists() { rep.note(&format!("profile {} binary missing: {}", profile, bin)); return; }
        let mut from = 0u64;
        while from < per_shard {
            let mut child = std::process::Command::new(&bin)
                .args(["c12-child", &rep.seed.to_string(), &from.to_string(), &per_shard.to_string(), &shards.to_string(), &shard.to_string()])
                .stdout(std::process::Stdio::piped()).stderr(std::process::Stdio::null()).spawn().expect("spawn child");
            let stdout = child.stdout.take().unwrap();
            let (tx, rx) = std::sync::mpsc::channel::<String>();
            let reader = std::thread::spawn(move || { for l in BufReader::new(stdout).lines().map_while(Result::ok) { if tx.send(l).is_err() { break; } } });
            let mut last_case: Option<u64> = None;
            let mut done_cases = 0u64;
            let mut stalled = false;
            loop {
                match rx.recv_timeout(std::time::Duration::from_secs(if quick { 30 } else { 120 })) {
                    Ok(l) => {
                        if let Some(n) = l.strip_prefix("CASE ") { last_case = n.trim().parse().ok(); }
                        else if let Some(js) = l.strip_prefix("RES ") {
                            done_cases += 1;
                            let Ok(j) = serde_json::from_str::<serde_json::Value>(js) else { continue };
                            rep.eval(1);
                            let idx = j["i"].as_u64().unwrap_or(0);
                            let c = gen_case(rep.seed, idx);
                            rep.count(&format!("profile={}", profile), 1);
                            if j["ms"].as_u64().unwrap_or(0) > 2000 { rep.count("slow_cases_over_2s", 1); rep.inconclusive(json!({"why": "slow case", "case": show_case(&c), "ms": j["ms"]})); }
                            if let Some(v) = j["v"].as_str() {
                                rep.violation(Violation { signature: format!("C12:{}:{}", v, c.name), what: format!("{} ({} build): got {} — expected {}", show_case(&c), profile, j["what"].as_str().unwrap_or(""), j["want"].as_str().unwrap_or("")), witness: json!({"case": show_case(&c), "seed": rep.seed, "index": idx, "profile": profile}) });
                            } else {
                                rep.count(&format!("outcome={}:{}", j["z"].as_str().unwrap_or(""), j["k"].as_str().unwrap_or("")), 1);
                                rep.distinct(crate::rng::fnv64(show_case(&c).as_bytes()));
                                rep.count(&format!("builtin={}", c.name), 1);
                                if c.args.iter().any(|a| matches!(a, Arg::Bin(_, s) if *s != 0)) { rep.count("cases_with_rope_shaped_argument", 1); }
                                if rep.want_sample() { rep.sample(json!({"case": show_case(&c), "model": show_expect(&model(&c))})); }
                            }
                        }
                    }
                    Err(std::sync::mpsc::RecvTimeoutError::Timeout) => { stalled = true; child.kill().ok(); break; }
                    Err(_) => break,
                }
            }
            let status = child.wait().ok();
            reader.join().ok();
            let clean = status.map(|s| s.success()).unwrap_or(false) && !stalled;
            if clean { break; }
            // attribute to the last announced case and continue after it
            let Some(idx) = last_case else { rep.note("child died before announcing a case"); break; };
            let c = gen_case(rep.seed, idx);
            if stalled {
                rep.count("stalled_cases", 1);
                rep.inconclusive(json!({"why": "case exceeded the wall-clock allowance (not judged: the hang discipline needs a scaling test)", "case": show_case(&c), "profile": profile}));
            } else {
                rep.eval(1);
                rep.violation(Violation { signature: format!("C12:abort:{}", c.name), what: format!("{} ({} build): the process died ({:?}) — stack overflow, abort or out-of-memory", show_case(&c), profile, status), witness: json!({"case": show_case(&c), "seed": rep.seed, "index": idx, "profile": profile}) });
            }
            let _ = done_cases;
            from = (idx - shard) / shards + 1;
        }
    });
}

pub const RULE: &str = "every pure builtin registered by register_{integer,binary,vector}_builtins (45), called directly through BuiltinRegistry::get_implementation with arguments of its declared parameter type: integers from a boundary pool (0, +-1, 2^31, 2^32, 2^63, 2^64 and neighbours, 10^30, 16 MiB+-1, random up to 200 bits), binaries of boundary lengths up to 16 MiB in random rope shapes of equal content (Owned, Zeroed, Slice at offsets, left/right Concat spines up to 6000 deep, Tiled, nestings), bit windows at every bit_offset x num_bits; each case runs under catch_unwind in a child process (so aborts are attributed), in BOTH build profiles (debug-assertions+overflow-checks on / release), and every rope-shaped case is re-run with flat arguments of equal content. Oracle: reference models over BigInt / Vec<u8> with a three-zone domain (must-value / must-error / either). distinct_nontrivial = distinct (builtin, arguments) cases judged";
pub const ASSUME: &[&str] = &["documentation = the doc comments of quiver-core/src/builtins/*.rs; where they are silent (unequal lengths for and/or/xor, values >= 2^63 for 64-bit set/append, shift amounts beyond i64, signedness of hash64, rounding of integer division) the model accepts an error or the listed value(s)", "slow cases are inconclusive, never violations"];
pub const SITUATIONS: &[&str] = &["cases_with_rope_shaped_argument", "outcome=must:value", "outcome=err:error", "outcome=open:value", "outcome=must:nil", "profile=checked", "profile=faithful"];
