//! C13 — equality is structural, construction-independent, and refs are unique.
//!
//! Monitor: a model of structural equality over abstract values.  Programs build the same (or a minimally different)
//! abstract value along two independent construction paths — literal, computed, spread, union-typed construction site,
//! returned from a generic function, imported from a module, awaited from another process, received as a message — and
//! ask the real VM for the verdict through every equality form (pin, pin inside a tuple, repeated binder, literal match).
//! The verdict must equal the model's, in both orders (symmetry) and for every pair of a triple (transitivity).  Ref
//! uniqueness: processes on 1-4 workers mint refs, the root collects them and compares all pairs.
use crate::procsys::*;
use crate::qv::{self, CV};
use crate::report::{Report, Violation};
use crate::rng::Rng;
use crate::simnet::*;
use serde_json::json;
use std::collections::HashMap;

#[derive(Clone, Debug, PartialEq)]
pub enum AV { Int(i64), Bin(Vec<u8>), Tup(Option<String>, Vec<(Option<String>, AV)>) }

fn gen_av(rng: &mut Rng, d: usize) -> AV {
    match rng.below(if d == 0 { 2 } else { 5 }) {
        0 => AV::Int(*rng.pick(&[0i64, 1, -1, 7, 255, 256, 65536, 1 << 40])),
        1 if rng.chance(1, 3) => { // periodic bytes: the same value has several factorisations as unit x count
            let unit: Vec<u8> = (0..1 + rng.below(3)).map(|_| rng.below(4) as u8 + 0x60).collect(); let n = *rng.pick(&[2usize, 4, 6, 12]); AV::Bin(unit.repeat(n)) }
        1 => { let n = *rng.pick(&[0usize, 1, 2, 3, 9, 40]); AV::Bin((0..n).map(|i| (i as u8).wrapping_mul(37).wrapping_add(rng.below(3) as u8)).collect()) }
        _ => {
            let n = rng.below(4);
            let name = if rng.chance(1, 2) { Some(rng.pick(&["A", "B", "Cons", "Str"]).to_string()) } else { None };
            // all fields labelled, none, or a mixture (labels then sit at some positions only)
            let labelling = rng.below(4);
            if name.as_deref() == Some("Str") { return AV::Tup(name, vec![(None, AV::Bin(vec![97, 98]))]); }
            let f: Vec<(Option<String>, AV)> = (0..n).map(|i| (if labelling == 0 || (labelling == 1 && rng.chance(1, 2)) { Some(["x", "y", "z"][i].to_string()) } else { None }, gen_av(rng, d - 1))).collect();
            // nil itself (the empty unnamed tuple) only below the top: at the top it would make `va = []` steps and verdicts ambiguous
            if name.is_none() && f.is_empty() && d == 3 { AV::Tup(Some("Nil".into()), vec![]) } else { AV::Tup(name, f) }
        }
    }
}

/// a minimally different value: one leaf changed, a label changed, a name changed, or a field added
fn perturb(v: &AV, rng: &mut Rng) -> AV {
    match v {
        AV::Int(i) => AV::Int(i + if rng.chance(1, 2) { 1 } else { -1 }),
        AV::Bin(b) => { let mut b = b.clone(); match rng.below(3) { 0 if !b.is_empty() => { let k = rng.below(b.len()); b[k] ^= 1; } 1 if !b.is_empty() => { b.pop(); } _ => b.push(0) } AV::Bin(b) }
        AV::Tup(n, f) => {
            match rng.below(5) {
                4 if f.len() >= 2 && f.iter().any(|(l, _)| l.is_some()) && f.iter().any(|(l, _)| l.is_none()) => {
                    // the same values in the same order, one label moved to a position that had none
                    let mut f = f.clone(); let from = f.iter().position(|(l, _)| l.is_some()).unwrap(); let to = f.iter().position(|(l, _)| l.is_none()).unwrap();
                    let l = f[from].0.take(); f[to].0 = l; AV::Tup(n.clone(), f)
                }
                0 if !f.is_empty() => { let k = rng.below(f.len()); let mut f = f.clone(); f[k].1 = perturb(&f[k].1, rng); AV::Tup(n.clone(), f) }
                1 => AV::Tup(Some(match n.as_deref() { Some("A") => "B".into(), _ => "A".to_string() }), f.clone()),
                2 if !f.is_empty() => { let mut f = f.clone(); let k = rng.below(f.len()); f[k].0 = match &f[k].0 { Some(l) if l == "x" => Some("w".into()), Some(_) => Some("x".into()), None => Some("x".into()) }; if f.iter().filter(|(l, _)| l.as_deref() == Some("x")).count() > 1 { f[k].0 = Some("q".into()); } AV::Tup(n.clone(), f) }
                _ => { let mut f = f.clone(); f.push((if f.iter().any(|(l, _)| l.is_some()) { Some("extra".into()) } else { None }, AV::Int(0))); AV::Tup(n.clone(), f) }
            }
        }
    }
}

fn lit(v: &AV) -> String {
    match v {
        AV::Int(i) => i.to_string(),
        AV::Bin(b) => format!("0x{}", b.iter().map(|x| format!("{:02x}", x)).collect::<String>()),
        AV::Tup(n, f) => format!("{}[{}]", n.clone().unwrap_or_default(), f.iter().map(|(l, x)| match l { Some(l) => format!("{}: {}", l, lit(x)), None => lit(x) }).collect::<Vec<_>>().join(", ")),
    }
}

pub const PATHS: &[&str] = &["literal", "computed", "spread", "union-site", "generic-function", "imported", "awaited", "received", "closure-captured"];

/// source of an expression (a chain, usable as a tuple field) that evaluates to `v` along construction path `path`.
/// `pre` collects top-level bindings the expression needs; `module` collects module members.
fn build(v: &AV, path: &str, rng: &mut Rng, pre: &mut Vec<String>, module: &mut Vec<String>, fresh: &mut usize) -> String {
    *fresh += 1; let k = *fresh;
    match path {
        "computed" => match v {
            AV::Int(i) => { let a = rng.range(-50, 50); format!("[{}, {}] __integer_add__", i - a, a) }
            AV::Bin(b) => {
                // as unit x count when the bytes are periodic (any of the factorisations), as a slice of a longer literal, or as a concat
                let periods: Vec<usize> = (1..=b.len() / 2).filter(|p| b.len() % p == 0 && b.chunks(*p).all(|c| c == &b[..*p])).collect();
                match rng.below(3) {
                    0 if !periods.is_empty() => { let p = *rng.pick(&periods); format!("[{}, {}] __binary_repeat__", lit(&AV::Bin(b[..p].to_vec())), b.len() / p) }
                    1 if !b.is_empty() => { let (pre, post) = (rng.below(3), rng.below(3)); let mut big = vec![0x11u8; pre]; big.extend_from_slice(b); big.extend(vec![0x22u8; post]); format!("[{}, {}, {}] __binary_slice__", lit(&AV::Bin(big)), pre, pre + b.len()) }
                    _ => { let cut = if b.is_empty() { 0 } else { rng.below(b.len() + 1) }; format!("[{}, {}] __binary_concat__", lit(&AV::Bin(b[..cut].to_vec())), lit(&AV::Bin(b[cut..].to_vec()))) }
                }
            }
            AV::Tup(n, f) => format!("{}[{}]", n.clone().unwrap_or_default(), f.iter().map(|(l, x)| { let e = build(x, "computed", rng, pre, module, fresh); match l { Some(l) => format!("{}: {}", l, e), None => e } }).collect::<Vec<_>>().join(", ")),
        },
        "spread" => match v {
            AV::Tup(n, f) if !f.is_empty() => { let cut = rng.below(f.len()); pre.push(format!("sp{} = {}", k, lit(&AV::Tup(Some("W".into()), f[..cut].to_vec())))); let rest: Vec<String> = f[cut..].iter().map(|(l, x)| match l { Some(l) => format!("{}: {}", l, lit(x)), None => lit(x) }).collect(); format!("{}[...sp{}, {}]", n.clone().unwrap_or_default(), k, rest.join(", ")) }
            _ => build(v, "computed", rng, pre, module, fresh),
        },
        "union-site" => match v {
            // every field comes out of a union-typed variable, so the construction site's tuple type differs from the literal's
            AV::Tup(n, f) if !f.is_empty() => { let mut parts = vec![]; for (i, (l, x)) in f.iter().enumerate() { pre.push(format!("us{}_{} = 1 {{ | =1 => {} | Other[\"o\"] }}", k, i, lit(x))); parts.push(match l { Some(l) => format!("{}: us{}_{}", l, k, i), None => format!("us{}_{}", k, i) }); } format!("{}[{}]", n.clone().unwrap_or_default(), parts.join(", ")) }
            _ => { pre.push(format!("us{} = 1 {{ | =1 => {} | Other[\"o\"] }}", k, lit(v))); format!("us{}", k) }
        },
        "generic-function" => { pre.push(format!("id{} = #<'t>'t {{ ~ }}", k)); match v { AV::Tup(n, f) if f.len() == 2 && f.iter().all(|(l, _)| l.is_none()) => { pre.push(format!("mk{} = #<'t, 'u>['t, 'u] {{ =[a, b], {}[a, b] }}", k, n.clone().unwrap_or_default())); format!("[{}, {}] mk{}", lit(&f[0].1), lit(&f[1].1), k) } _ => format!("{} id{}", lit(v), k) } }
        "imported" => { module.push(format!("m{}: {}", k, lit(v))); if rng.chance(1, 2) { format!("%lib.m{}", k) } else { pre.push(format!("lib{} = %lib", k)); format!("lib{}.m{}", k, k) } }
        "awaited" => { let inner_path = if rng.chance(1, 2) { "literal" } else { "computed" }; let inner = build(v, inner_path, rng, pre, module, fresh); pre.push(format!("pr{} = @#{{ {} }}", k, inner)); pre.push(format!("aw{} = !pr{}", k, k)); format!("aw{}", k) }
        "closure-captured" => { pre.push(format!("cv{} = {}", k, lit(v))); pre.push(format!("cf{} = #{{ cv{} }}", k, k)); format!("cf{}", k) }
        _ => lit(v),
    }
}

/// the program asks for the verdict of `a == b` through several forms; returns (source, number of verdicts)
fn program(a: &AV, pa: &str, b: &AV, pb: &str, rng: &mut Rng) -> (String, HashMap<Vec<String>, String>, Vec<&'static str>) {
    let mut pre = vec![]; let mut module = vec![]; let mut fresh = 0;
    let ea = build(a, pa, rng, &mut pre, &mut module, &mut fresh);
    let eb = build(b, pb, rng, &mut pre, &mut module, &mut fresh);
    let mut forms: Vec<&'static str> = vec!["pin", "pin-reversed", "pin-inside-tuple", "repeated-binder", "repeated-binder-nested"];
    let mut steps = pre;
    steps.push(format!("va = {}", ea));
    steps.push(format!("vb = {}", eb));
    let mut verdicts = vec!["va =&vb".to_string(), "vb =&va".to_string(), "T[1, va] =T[1, &vb]".to_string(), "[va, vb] =[same, same]".to_string(), "P[[va], Q[x: vb]] =P[[same2], Q[x: same2]]".to_string()];
    // literal match (the right-hand value written as a pattern)
    forms.push("literal-pattern"); verdicts.push(format!("va ={}", lit(b)));
    // received as a message: a child sends `a` to the root, which compares what it received with `vb`
    let recv_ok = !matches!(a, AV::Tup(..)) ;
    if recv_ok { forms.push("received-message"); let ty = match a { AV::Int(_) => "'int", _ => "'bin" }; steps.push("me = &.".into()); steps.push(format!("snd = &me @#(@{}) {{ =parent => {{ {} parent }} }}", ty, lit(a))); steps.push(format!("got = !{}", ty)); verdicts.push("got =&vb".to_string()); }
    steps.push(format!("[{}]", verdicts.iter().map(|v| format!("{{ {} }}", v)).collect::<Vec<_>>().join(", ")));
    let mut modules = HashMap::new();
    modules.insert(vec!["lib".to_string()], format!("[{}]", if module.is_empty() { "none: 0".to_string() } else { module.join(", ") }));
    (steps.join(",\n"), modules, forms)
}

fn run(src: &str, modules: &HashMap<Vec<String>, String>, b: &qv::Builtins, workers: usize, seed: u64) -> Result<CV, String> {
    let cp = qv::compile_with(src, Some(modules.clone()), b).map_err(|e| format!("compile: {:?}", e))?;
    let mut sim = Sim::new(workers, b, false, None);
    sim.set_logging(false);
    let st = start_program(&mut sim, cp.program.to_bytecode(Some(cp.entry)))?;
    let mut rng = Rng::new(seed);
    let strat = *rng.pick(&[Strategy::Eager, Strategy::Uniform, Strategy::Lazy]);
    let end = sim.run(strat, QuantumPolicy::Mixed, &mut rng, 200_000, &|| false, &mut |_s| false);
    if let RunEnd::Trouble(t) = &end { return Err(format!("{:?}", t)); }
    match poll_root(&mut sim, &st).map(|r| canon_root(&sim, &r, st.pid)) { Some(Fate::Done(v)) => Ok(v), Some(Fate::Failed(e)) => Err(format!("failed: {:?}", e)), _ => Err(format!("no result ({:?})", end)) }
}

pub fn check(rep: &Report) {
    let quick = rep.quick();
    let b = qv::builtins();
    let n_pairs = if quick { 60_000 } else { 1_500_000 };
    let n_refs = if quick { 2_000 } else { 40_000 };
    let n_fn = if quick { 1_000 } else { 20_000 };
    let watch = crate::pool::Watch::new("C13", 60);
    crate::pool::run_indexed(n_pairs + n_refs + n_fn, 256, |j| {
        let mut rng = Rng::derive(rep.seed, "C13", 0, j as u64);
        if j < n_pairs {
            let a = gen_av(&mut rng, 3);
            let equal = rng.chance(1, 2);
            let bv = if equal { a.clone() } else { perturb(&a, &mut rng) };
            let (pa, pb) = (*rng.pick(PATHS), *rng.pick(PATHS));
            let (pa, pb) = (if pa == "received" { "literal" } else { pa }, if pb == "received" { "literal" } else { pb });
            let (src, modules, forms) = program(&a, pa, &bv, pb, &mut rng);
            let workers = 1 + rng.below(3);
            watch.enter(j, &src);
            let r = crate::pool::catch(|| run(&src, &modules, &b, workers, j as u64));
            watch.leave(j);
            let r = match r { Ok(r) => r, Err(p) => Err(format!("panic: {}", p)) };
            let expected = a == bv;
            match r {
                Ok(CV::Tuple(_, fields)) if fields.len() == forms.len() => {
                    rep.distinct(crate::rng::fnv64(format!("{:?}{:?}{}{}", a, bv, pa, pb).as_bytes()));
                    rep.count(&format!("path_pair={}~{}", pa.min(pb), pa.max(pb)), 1);
                    rep.count(if expected { "equal_pairs" } else { "unequal_pairs" }, 1);
                    for ((_, v), form) in fields.iter().zip(forms.iter()) {
                        rep.eval(1); rep.count(&format!("form={}", form), 1);
                        let said = !v.is_nil();
                        // recorded type hole (see known_findings.json): a union-site variable bound to nil by a bare binder is typed non-nil, which
                        // compiles a later nil test against it away; attributed only when the program binds exactly such a variable
                        if said != expected && src.contains("=> [] | Other") { rep.violation(Violation { signature: "C13:variable-bound-to-nil-by-bare-binder-is-typed-non-nil".into(), what: format!("{} and {} ({} vs {}) compared {} through {} in a program that binds nil with a bare binder", lit(&a), lit(&bv), pa, pb, if said { "equal" } else { "unequal" }, form), witness: json!({"program": src, "form": form}) }); break; }
                        if said != expected { rep.violation(Violation { signature: format!("C13:{}:{}-vs-{}:{}", if expected { "equal-values-compare-unequal" } else { "unequal-values-compare-equal" }, pa.min(pb), pa.max(pb), form), what: format!("{} and {} ({} vs {}) compared {} through {}", lit(&a), lit(&bv), pa, pb, if said { "equal" } else { "unequal" }, form), witness: json!({"program": src, "a": lit(&a), "b": lit(&bv), "path_a": pa, "path_b": pb, "form": form, "workers": workers}) }); break; }
                    }
                    if rep.want_sample() { rep.sample(json!({"program": src, "expected": expected})); }
                }
                Ok(other) => rep.violation(Violation { signature: "C13:harness-shape".into(), what: format!("unexpected result shape {}", other.show()), witness: json!({"program": src}) }),
                Err(e) if e.starts_with("compile:") => { if rep.counter("pair_program_rejected_by_compiler") < 5 { eprintln!("REJECTED {}\n{}\n", e, src); } rep.count("pair_program_rejected_by_compiler", 1); rep.count(&format!("rejected path {}~{}", pa, pb), 1); }
                Err(e) if e.starts_with("no result") => rep.count("pair_program_did_not_finish(inconclusive)", 1),
                Err(e) => rep.violation(Violation { signature: format!("C13:run-failed:{}", e.split(|c: char| !c.is_alphanumeric()).find(|s| !s.is_empty()).unwrap_or("")), what: format!("the comparison program failed: {}", e), witness: json!({"program": src, "workers": workers}) }),
            }
        } else if j < n_pairs + n_refs && j % 8 == 0 {
            // nil against nil, each reached without a bare binder ever seeing a union-typed nil (the recorded type hole): a nil
            // literal, a nilary function returning nil, a module member, the result of a process
            let exprs = ["[]", "mknil", "%lib.n", "!pn", "[x: []] .x"];
            let (ea, eb) = (exprs[rng.below(exprs.len())], exprs[rng.below(exprs.len())]);
            let src = format!("mknil = #{{ [] }},\npn = @#{{ [] }},\nva = {},\nvb = {},\n[{{ va =&vb }}, {{ vb =&va }}, {{ T[va] =T[&vb] }}, {{ [va, vb] =[s, s] }}, {{ va =[] }}, {{ T[va, 1] =T[&vb, 2] }}]", ea, eb);
            let mut modules = HashMap::new(); modules.insert(vec!["lib".to_string()], "[n: []]".to_string());
            let expect = [true, true, true, true, true, false];
            match crate::pool::catch(|| run(&src, &modules, &b, 1 + rng.below(2), j as u64)) {
                Ok(Ok(CV::Tuple(_, f))) if f.len() == expect.len() => { rep.count("nil_against_nil_programs", 1); for (k, ((_, v), e)) in f.iter().zip(expect.iter()).enumerate() { rep.eval(1); if !v.is_nil() != *e { rep.violation(Violation { signature: format!("C13:nil-equality:{}", k), what: format!("nil compared with nil: comparison #{} gave {} where {} is expected", k, !v.is_nil(), e), witness: json!({"program": src}) }); break; } } }
                Ok(Err(e)) if e.starts_with("no result") => rep.count("nil_program_did_not_finish(inconclusive)", 1),
                other => rep.violation(Violation { signature: "C13:nil-program-failed".into(), what: format!("{:?}", other.map(|r| r.map(|v| v.show()))), witness: json!({"program": src}) }) }
        } else if j < n_pairs + n_refs {
            // ref uniqueness across processes and workers: n children mint m refs each and return them; the root mints too
            let n = 2 + rng.below(4); let m = 1 + rng.below(3);
            let mut steps = vec![];
            let mint = format!("[{}]", (0..m).map(|_| "%ref").collect::<Vec<_>>().join(", "));
            for c in 0..n { steps.push(format!("p{} = @#{{ {} }}", c, mint)); }
            steps.push(format!("own = {}", mint));
            for c in 0..n { steps.push(format!("r{} = !p{}", c, c)); }
            let mut all: Vec<String> = vec![]; for c in 0..n { for i in 0..m { all.push(format!("r{}.{}", c, i)); } } for i in 0..m { all.push(format!("own.{}", i)); }
            let mut cmps = vec![]; let mut expect = vec![];
            for x in 0..all.len() { for y in 0..all.len() { if rng.chance(1, 2) || x == y { steps.push(format!("c{}_{} = {}", x, y, all[y])); cmps.push(format!("{{ {} =&c{}_{} }}", all[x], x, y)); expect.push(x == y); } } }
            steps.push(format!("[{}]", cmps.join(", ")));
            let src = steps.join(",\n");
            let workers = 1 + rng.below(4);
            watch.enter(j, &src);
            let r = crate::pool::catch(|| run(&src, &HashMap::new(), &b, workers, j as u64));
            watch.leave(j);
            match r { Ok(Ok(CV::Tuple(_, f))) if f.len() == expect.len() => { rep.count("ref_programs", 1); rep.count(&format!("ref_workers={}", workers), 1); for ((_, v), e) in f.iter().zip(expect.iter()) { rep.eval(1); rep.count(if *e { "ref_compared_with_itself" } else { "refs_of_different_mintings_compared" }, 1); if !v.is_nil() != *e { rep.violation(Violation { signature: format!("C13:ref-{}", if *e { "not-equal-to-itself" } else { "equal-to-another-minting" }), what: "ref equality differs from minting identity".into(), witness: json!({"program": src, "workers": workers}) }); break; } } }
                Ok(Err(e)) if e.starts_with("no result") => rep.count("ref_program_did_not_finish(inconclusive)", 1),
                Ok(Err(e)) if e.starts_with("compile:") => rep.violation(Violation { signature: "C13:harness-ref-program-rejected".into(), what: e, witness: json!({"program": src}) }),
                other => rep.violation(Violation { signature: "C13:ref-program-failed".into(), what: format!("{:?}", other.map(|r| r.map(|v| v.show()))), witness: json!({"program": src, "workers": workers}) }) }
        } else {
            // functions: same definition and equal captures => equal; same definition, different captures => unequal;
            // processes: a process equals itself and no other
            let c1 = rng.range(0, 9); let c2 = if rng.chance(1, 2) { c1 } else { c1 + 1 };
            let src = format!("mk = #'int {{ =c => #'int {{ [~, c] __integer_add__ }} }},\nf1 = {} mk, f2 = {} mk, g = &f1,\np1 = @#{{ 1 }}, p2 = @#{{ 1 }}, q = &p1,\n[{{ &f1 =&g }}, {{ &f1 =&f2 }}, {{ &f2 =&f1 }}, {{ &p1 =&q }}, {{ &p1 =&p2 }}, {{ [&f1, &p1] =[&g, &q] }}]", c1, c2);
            let expect = [true, c1 == c2, c1 == c2, true, false, true];
            let workers = 1 + rng.below(3);
            match crate::pool::catch(|| run(&src, &HashMap::new(), &b, workers, j as u64)) {
                Ok(Ok(CV::Tuple(_, f))) if f.len() == expect.len() => { rep.count("function_and_process_programs", 1); for (k, ((_, v), e)) in f.iter().zip(expect.iter()).enumerate() { rep.eval(1); if !v.is_nil() != *e { rep.violation(Violation { signature: format!("C13:function-or-process-equality:{}", k), what: format!("comparison #{} gave {} where {} is expected", k, !v.is_nil(), e), witness: json!({"program": src, "workers": workers}) }); break; } } }
                Ok(Err(e)) if e.starts_with("no result") => rep.count("function_program_did_not_finish(inconclusive)", 1),
                other => rep.violation(Violation { signature: "C13:function-program-failed".into(), what: format!("{:?}", other.map(|r| r.map(|v| v.show()))), witness: json!({"program": src}) }) }
        }
    });
}

pub const RULE: &str = "for every pair of abstract values (equal, or differing in one leaf / label / name / arity) built along two construction paths out of {literal, computed, spread, union-typed construction site, generic function, imported from a module, awaited from a process, received as a message, returned by a closure}: the VM's verdict through pin, reversed pin, pin inside a tuple, repeated binder (flat and nested) and literal pattern == structural equality of the abstract values; refs minted by up to 5 processes on 1-4 workers are equal exactly to themselves; functions compare by definition and captures, processes by identity";
pub const ASSUME: &[&str] = &["two textually identical but separate function definitions are not compared (the property leaves their identity open)"];
pub const SITUATIONS: &[&str] = &["equal_pairs", "unequal_pairs", "form=pin", "form=repeated-binder", "form=literal-pattern", "form=received-message", "path_pair=literal~union-site", "path_pair=generic-function~spread", "path_pair=awaited~imported", "ref_programs", "nil_against_nil_programs", "ref_workers=4", "refs_of_different_mintings_compared", "function_and_process_programs"];
