//! C14 — a resource is usable only by its single owner and is closed exactly once.
use crate::c03::{sched_variants, trouble_sig, SchedCfg};
use crate::mockio::{Call, MockBackend, MockState};
use crate::procsys::*;
use crate::qv;
use crate::report::{Report, Violation};
use crate::rng::Rng;
use crate::simnet::*;
use quiver_core::effects::Effect;
use quiver_core::process::ProcessId;
use quiver_core::value::{ResourceId, Value};
use quiver_environment::Event;
use quiver_io::NativeEffect;
use serde_json::json;
use std::collections::{BTreeMap, BTreeSet};
use std::sync::{Arc, Mutex};

pub struct ResScen {
    pub src: String,
    pub kinds: Vec<&'static str>,
}

pub fn gen_res(rng: &mut Rng) -> ResScen {
    let m = 1 + rng.below(3);
    let n = 1 + rng.below(4);
    let mut steps: Vec<String> = vec![];
    for k in 0..m {
        steps.push(format!("f{} = [0x2f78{:02x}, 66, 420] __file_open__", k, k));
    }
    let mut kinds = vec![];
    // children; `need` = what the root must send them afterwards
    #[derive(Clone)]
    enum Need { None, Handle(usize, bool), HandleThenGo(usize), GoThenHandle(usize) }
    let mut needs: Vec<Need> = vec![];
    let mut recv_children: Vec<usize> = vec![]; // children that accept a bare handle message
    for j in 0..n {
        let k = rng.below(m);
        let t = rng.below(12);
        let (def, need, kind): (String, Need, &'static str) = match t {
            0 => (format!("c{} = @#{{ h = !#\\File, [h, 0, 0x42] __file_write__ }}", j), Need::Handle(k, false), "recv_use"),
            1 => (format!("c{} = @#{{ m = !#W[\\File, 'int], [m.0, 0, 0x42] __file_write__ }}", j), Need::Handle(k, true), "recv_wrapped_use"),
            2 => (format!("c{} = f{} @#\\File {{ [$, 0, 0x43] __file_write__ }}", j, k), Need::None, "spawn_arg_use"),
            3 => (format!("c{} = @#{{ [f{}, 0, 0x44] __file_write__ }}", j, k), Need::None, "spawn_capture_use"),
            4 => (format!("g{} = #'int {{ [f{}, $, 0x45] __file_write__ }},\n  c{} = @#{{ 0 g{} }}", j, k, j, j), Need::None, "closure_capture_use"),
            5 => (format!("c{} = @#{{ h = !#\\File, h __file_close__ }}", j), Need::Handle(k, false), "recv_close"),
            6 => (format!("c{} = @#{{ h = !#\\File, zz = [1, 0] __integer_divide__, 0 }}", j), Need::Handle(k, false), "recv_then_fail"),
            7 if !recv_children.is_empty() => { let to = *rng.pick(&recv_children); (format!("c{} = @#{{ h = !#\\File, h c{}, [h, 0, 0x46] __file_write__ }}", j, to), Need::Handle(k, false), "recv_forward_then_use") }
            8 => (format!("c{} = @#{{ h = !#\\File, g = !'int, [h, 0, 0x47] __file_write__ }}", j), Need::HandleThenGo(k), "recv_hold_until_go"),
            9 => (format!("c{} = @#{{ g = !'int, h = !#\\File, 0 }}", j), Need::GoThenHandle(k), "handle_left_in_mailbox"),
            10 => (format!("c{} = @#{{ h = !#\\File, w = [h, 0, 0x49] __file_write__, h __file_close__, w }}", j), Need::Handle(k, false), "recv_use_close"),
            _ => (format!("c{} = @#{{ h = !#\\File, h }}", j), Need::Handle(k, false), "recv_return_handle"),
        };
        if matches!(t, 0 | 5 | 6 | 10 | 11) { recv_children.push(j); }
        steps.push(def);
        needs.push(need);
        kinds.push(kind);
    }
    // root's sends, in random order
    let mut sends: Vec<String> = vec![];
    for (j, need) in needs.iter().enumerate() {
        match need {
            Need::None => {}
            Need::Handle(k, wrapped) => sends.push(if *wrapped { format!("W[f{}, 7] c{}", k, j) } else { format!("f{} c{}", k, j) }),
            Need::HandleThenGo(k) => { sends.push(format!("f{} c{}", k, j)); if rng.chance(2, 3) { sends.push(format!("1 c{}", j)); } else { kinds.push("owner_blocked_forever"); } }
            Need::GoThenHandle(k) => { sends.push(format!("f{} c{}", k, j)); if rng.chance(1, 3) { sends.push(format!("1 c{}", j)); } }
        }
    }
    // keep per-child relative order (handle before go) by only shuffling blocks
    if rng.chance(1, 2) { sends.reverse(); sends.sort_by_key(|s| s.split(' ').last().unwrap().to_string()); }
    steps.extend(sends);
    // awaits of a random subset of children (never of ones that may block forever)
    for j in 0..n {
        let may_block = matches!(needs[j], Need::HandleThenGo(_) | Need::GoThenHandle(_));
        if !may_block && rng.chance(3, 5) { steps.push(format!("r{} = !c{}", j, j)); kinds.push("owner_awaited"); } else { kinds.push("owner_not_awaited"); }
    }
    // the root's own last action
    match rng.below(5) {
        0 => { let k = rng.below(m); steps.push(format!("[f{}, 0, 0x48] __file_write__", k)); kinds.push("root_uses_handle_at_end"); }
        1 => { let k = rng.below(m); steps.push(format!("f{} __file_close__", k)); kinds.push("root_closes_at_end"); }
        _ => steps.push("0".into()),
    }
    let mut src = format!("main = #{{\n  {}\n}},\nmain\n", steps.join(",\n  "));
    // a third of the scenarios use directory handles instead of file handles: same ownership rules, other effects
    if rng.chance(1, 3) {
        kinds.push("directory_handles");
        let mut out = String::new();
        for line in src.lines() {
            let mut l = line.to_string();
            // [0x2f78NN, 66, 420] __file_open__  ->  0x2f78NN __directory_read__
            if let Some(p) = l.find("] __file_open__") { if let Some(q) = l[..p].rfind('[') { let inner: String = l[q + 1..p].to_string(); let path = inner.split(',').next().unwrap_or("0x2f").trim().to_string(); l = format!("{}{} __directory_read__{}", &l[..q], path, &l[p + "] __file_open__".len()..]); } }
            // [H, N, 0xNN] __file_write__  ->  H __directory_next__
            while let Some(p) = l.find("] __file_write__") { let Some(q) = l[..p].rfind('[') else { break }; let inner: String = l[q + 1..p].to_string(); let h = inner.split(',').next().unwrap_or("").trim().to_string(); l = format!("{}{} __directory_next__{}", &l[..q], h, &l[p + "] __file_write__".len()..]); }
            l = l.replace("__file_close__", "__directory_close__").replace("\\File", "\\Dir");
            out.push_str(&l); out.push('\n');
        }
        src = out;
    }
    ResScen { src, kinds }
}

fn resources_in(v: &Value, out: &mut Vec<ResourceId>) {
    match v {
        Value::Resource(r, _) => out.push(*r),
        Value::Tuple(_, fs) | Value::Function(_, fs) => for f in fs.iter() { resources_in(f, out); },
        _ => {}
    }
}

fn effect_kind(e: &NativeEffect) -> &'static str { crate::mockio::kind_of(e) }


pub struct Verdicts {
    pub violations: Vec<(String, String)>,
    pub counts: BTreeMap<&'static str, u64>,
}

/// Walk the events in the order the environment consumed them, beside the backend's call log.
pub fn judge(sim: &Sim, mock: &MockState, fates_by_pid: &BTreeMap<ProcessId, Fate>, root: ProcessId) -> Verdicts {
    let mut v = Verdicts { violations: vec![], counts: BTreeMap::new() };
    let mut owner: BTreeMap<ResourceId, ProcessId> = BTreeMap::new();
    let mut open: BTreeSet<ResourceId> = BTreeSet::new();
    let mut listed: BTreeSet<ResourceId> = BTreeSet::new(); // resources the environment still has an ownership entry for
    let mut transferred_to_dead: BTreeSet<ResourceId> = BTreeSet::new();
    let mut reported: BTreeSet<ProcessId> = BTreeSet::new(); // processes whose completion the environment was told about
    let mut c = 0usize;
    let calls = &mock.calls;
    let log = sim.log();
    let bump = |k: &'static str, v: &mut Verdicts| *v.counts.entry(k).or_insert(0) += 1;
    for (ix, e) in log.iter().enumerate() {
        if e.stage != Stage::Consumed { continue; }
        let Item::Evt(ev) = &e.item else { continue };
        match ev {
            Event::EffectRequest { process_id, effect } => {
                let kind = effect_kind(effect);
                let matches_next = |c: usize| matches!(calls.get(c), Some(Call::Execute { pid, kind: k, rid, .. }) if pid == process_id && *k == kind && *rid == crate::mockio::used_resource(effect));
                match crate::mockio::used_resource(effect) {
                    None => {
                        // creating effect: always reaches the backend
                        if matches_next(c) {
                            if let Some(Call::Execute { minted: Some(id), .. }) = calls.get(c) { owner.insert(*id, *process_id); open.insert(*id); listed.insert(*id); bump("resources_opened", &mut v); }
                            c += 1;
                        } else { v.violations.push(("create-not-executed".into(), format!("{:?} by process {} did not reach the backend", kind, process_id))); }
                    }
                    Some(r) => {
                        if !open.contains(&r) {
                            bump("operation_on_closed_resource(not judged)", &mut v);
                            if matches_next(c) { bump("operation_on_closed_resource_reached_backend(not judged)", &mut v); c += 1; }
                        } else if owner.get(&r) == Some(process_id) {
                            if matches_next(c) {
                                bump("owner_operation_reached_backend", &mut v);
                                if crate::mockio::is_close(kind) { if let Some(Call::Execute { ok: true, .. }) = calls.get(c) { open.remove(&r); bump("explicit_close_by_owner", &mut v); } }
                                c += 1;
                            } else { v.violations.push(("owner-refused".into(), format!("process {} owns open resource {} but its {} did not reach the backend (next backend call: {:?})", process_id, r, kind, calls.get(c)))); }
                        } else {
                            if matches_next(c) {
                                v.violations.push(("non-owner-reached-backend".into(), format!("process {} performed {} on open resource {} owned by process {:?} and the operation reached the backend", process_id, kind, r, owner.get(&r))));
                                c += 1;
                            } else {
                                bump("non_owner_operation_refused", &mut v);
                                match fates_by_pid.get(process_id) {
                                    Some(Fate::Failed(quiver_core::error::Error::InvalidArgument(m))) if m.contains("does not own resource") => bump("offender_failed_with_ownership_error", &mut v),
                                    other => v.violations.push(("offender-not-failed".into(), format!("process {} used resource {} it does not own; it should fail with a runtime error but ended as {:?}", process_id, r, other))),
                                }
                            }
                        }
                    }
                }
            }
            Event::DeliverAction { target, message, .. } => {
                let mut rs = vec![]; resources_in(message, &mut rs);
                for r in rs {
                    if owner.get(&r) != Some(target) { bump("ownership_transfers_by_message", &mut v); }
                    owner.insert(r, *target); listed.insert(r);
                    if reported.contains(target) { transferred_to_dead.insert(r); } else { transferred_to_dead.remove(&r); }
                }
            }
            Event::SpawnAction { captures, argument, .. } => {
                let mut rs = vec![]; for cpt in captures { resources_in(cpt, &mut rs); } resources_in(argument, &mut rs);
                if !rs.is_empty() {
                    // the new pid is in the SpawnProcess command the environment sends while handling this event
                    let new_pid = log[ix..].iter().find_map(|x| match (&x.item, x.stage) { (Item::Cmd(quiver_environment::Command::SpawnProcess { id, .. }), Stage::Sent) => Some(*id), _ => None });
                    if let Some(np) = new_pid { for r in rs { owner.insert(r, np); listed.insert(r); transferred_to_dead.remove(&r); bump("ownership_transfers_by_spawn", &mut v); } }
                }
            }
            Event::ProcessResults { results, .. } => {
                for (pid, r) in results {
                    if r.is_none() { continue; }
                    reported.insert(*pid);
                    // the environment lists a resource under its owner until this cleanup, also when the
                    // owner closed it explicitly (then close_resource is a documented no-op)
                    let mut expect: BTreeSet<ResourceId> = owner.iter().filter(|(r, o)| **o == *pid && listed.contains(r)).map(|(r, _)| *r).collect();
                    while let Some(Call::Close { rid, was_open }) = calls.get(c) {
                        if !expect.remove(rid) { break; }
                        listed.remove(rid);
                        if *was_open != open.contains(rid) { v.violations.push(("model-backend-disagree".into(), format!("close_resource({}) found it open={} but the model says open={}", rid, was_open, open.contains(rid)))); }
                        if open.remove(rid) { bump("closed_at_owner_termination", &mut v); } else { bump("redundant_close_noop", &mut v); }
                        c += 1;
                    }
                    let still_open: Vec<ResourceId> = expect.iter().filter(|r| open.contains(r)).copied().collect();
                    if !still_open.is_empty() {
                        if let Some(Call::Close { rid, .. }) = calls.get(c) {
                            let o = owner.get(rid).copied();
                            let alive = o.map(|o| !reported.contains(&o)).unwrap_or(false);
                            v.violations.push((if alive { "closed-while-owner-alive".into() } else { "closed-for-wrong-process".into() }, format!("while handling the completion of process {} (owning {:?}), resource {} (owner {:?}) was closed instead", pid, still_open, rid, o)));
                        } else {
                            v.violations.push(("not-closed-at-reported-termination".into(), format!("process {} terminated owning open resource(s) {:?}; the environment handled its completion without closing them", pid, still_open)));
                        }
                    }
                }
            }
            _ => {}
        }
    }
    if c != calls.len() { v.violations.push(("unexplained-backend-call".into(), format!("backend call #{} {:?} is not explained by any event the environment consumed", c, calls.get(c)))); }
    // double close / model vs backend
    let mut seen = BTreeSet::new();
    for (rid, how) in &mock.close_transitions { if !seen.insert(*rid) { v.violations.push(("closed-twice".into(), format!("resource {} went open->closed twice (second time by {})", rid, how))); } }
    if open != mock.open { v.violations.push(("model-backend-disagree".into(), format!("model thinks open={:?}, backend has open={:?}", open, mock.open))); }
    // at quiescence: a terminated owner's resources must be closed. The root is a persistent process
    // (it sleeps, it does not terminate), so it counts as alive.
    for r in &mock.open {
        let Some(o) = owner.get(r) else { continue };
        if *o == root { bump("open_resource_with_live_owner_at_quiescence", &mut v); continue; }
        match fates_by_pid.get(o) {
            Some(Fate::Done(_)) | Some(Fate::Failed(_)) => {
                if transferred_to_dead.contains(r) { v.violations.push(("sent-to-reported-terminated-process-never-closed".into(), format!("resource {} was sent to process {} after that process had terminated and its completion had been handled; it is owned by a dead process and stays open forever", r, o))); }
                else if reported.contains(o) { v.violations.push(("terminated-owner-resource-open".into(), format!("resource {} still open although its owner {} terminated and its completion was reported", r, o))); }
                else { v.violations.push(("unawaited-owner-never-closed".into(), format!("resource {} is still open at quiescence: its owner, process {}, has terminated, but no process ever awaited it, so the environment never learned of the termination and never closed it", r, o))); }
            }
            _ => bump("open_resource_with_live_owner_at_quiescence", &mut v),
        }
    }
    // cross-check the environment's own table (diagnostic)
    let envtab = sim.env.verif_resource_ownership();
    for (r, o) in &envtab { if open.contains(r) && owner.get(r) != Some(o) { v.violations.push(("env-table-disagrees".into(), format!("environment says resource {} is owned by {}, the event-order model says {:?}", r, o, owner.get(r)))); } }
    v
}

pub struct Run14 {
    pub end: RunEnd,
    pub sim: Sim,
    pub mock: Arc<Mutex<MockState>>,
    pub root: ProcessId,
}

pub fn run_one(bc: &quiver_core::bytecode::Bytecode, b: &qv::Builtins, cfg: &SchedCfg, heap_monitor: bool) -> Run14 {
    let (mb, st) = MockBackend::new(if cfg.seed % 3 == 0 { 0 } else { cfg.seed.rotate_left(7) | 1 });
    let mut sim = Sim::new(cfg.workers, b, false, Some(Box::new(mb)));
    sim.heap_monitor = heap_monitor;
    let started = start_program(&mut sim, bc.clone()).expect("start");
    let mut rng = Rng::new(cfg.seed);
    let st2 = st.clone();
    let end = sim.run(cfg.strat, cfg.qp, &mut rng, 100_000, &move || !st2.lock().unwrap().deferred.is_empty(), &mut |_s| false);
    Run14 { end, sim, mock: st, root: started.pid }
}

pub fn check(rep: &Report) {
    let quick = rep.quick();
    let n_scen = if quick { 4000 } else { 60000 };
    let n_sched = if quick { 12 } else { 50 };
    let b = qv::builtins_io();
    crate::pool::run_indexed(n_scen, 256, |i| {
        let mut rng = Rng::derive(rep.seed, "C14", 0, i as u64);
        let sc = gen_res(&mut rng);
        let bc = match compile_entry(&sc.src, &b) {
            Ok(bc) => bc,
            Err(e) => { rep.count("generator_rejects_compile", 1); rep.inconclusive(json!({"why": "scenario did not compile", "err": format!("{:?}", e).chars().take(200).collect::<String>(), "src": sc.src})); return; }
        };
        rep.distinct(crate::rng::fnv64(sc.src.as_bytes()));
        rep.count("scenarios", 1);
        for k in &sc.kinds { rep.count(&format!("shape={}", k), 1); }
        if rep.want_sample() { rep.sample(json!({"resource_scenario_source": sc.src})); }
        for cfg in &sched_variants(&mut rng, n_sched) {
            let run = run_one(&bc, &b, cfg, false);
            rep.eval(1);
            rep.set_insert("schedule_hashes", run.sim.schedule_hash());
            let calls_json: Vec<String> = run.mock.lock().unwrap().calls.iter().map(|c| format!("{:?}", c)).collect();
            let wit = || json!({"source": sc.src, "workers": cfg.workers, "strategy": format!("{:?}", cfg.strat), "quantum": format!("{:?}", cfg.qp), "sched_seed": cfg.seed,
                "backend_calls": calls_json, "actions": run.sim.actions.iter().map(act_to_json).collect::<Vec<_>>()});
            match &run.end {
                RunEnd::Quiescent => {}
                RunEnd::StepCap => { rep.inconclusive(json!({"why": "step cap"})); continue; }
                RunEnd::Trouble(t) => { rep.violation(Violation { signature: format!("C14:trouble:{}", trouble_sig(t)), what: format!("{:?}", t), witness: wit() }); continue; }
                RunEnd::Stopped => {}
            }
            let names = logical_names(&run.sim, run.root);
            let f = fates(&run.sim, run.root);
            let by_pid: BTreeMap<ProcessId, Fate> = names.iter().filter_map(|(pid, n)| f.get(n).map(|x| (*pid, x.clone()))).collect();
            let mock = run.mock.lock().unwrap();
            if mock.deferred.len() > 0 { rep.count("deferred_completions_left", 1); }
            let verdicts = judge(&run.sim, &mock, &by_pid, run.root);
            for (k, n) in &verdicts.counts { rep.count(k, *n); }
            rep.count("backend_calls_explained", mock.calls.len() as u64);
            for (sig, what) in verdicts.violations { rep.violation(Violation { signature: format!("C14:{}", sig), what, witness: wit() }); }
        }
    });
}

pub const RULE: &str = "generated resource scenarios: 1-3 files opened by the root (real quiver_io file builtins over a mock EffectBackend that mints ids, logs every execute/close_resource call and completes immediately or deferred), 1-4 child processes that obtain a handle by message (bare or nested in a tuple), spawn argument, spawn capture or a captured closure, then use / close / forward-then-use / hold / fail / leave it in the mailbox / return it; owners awaited or not; x SimNet schedules. Oracle: an ownership model driven by the order in which the environment consumed EffectRequest / DeliverAction / SpawnAction / ProcessResults events, walked beside the backend call log: owner operations must reach the backend, non-owner operations on an open resource must not and the offender must fail, completion reports must close exactly the reported process's open resources, no open->closed transition twice, and at quiescence no terminated owner may still have an open resource. distinct_nontrivial = distinct scenario sources";
pub const ASSUME: &[&str] = &["operations on an already closed resource are counted but not judged (the statement speaks of open resources)", "the environment's event consumption order is the serialisation point for ownership (a use racing a transfer is judged by who owned the resource when the environment looked)", "SimNet interleaving model (DESIGN §2.3)"];
pub const SITUATIONS: &[&str] = &["ownership_transfers_by_message", "ownership_transfers_by_spawn", "non_owner_operation_refused", "offender_failed_with_ownership_error", "owner_operation_reached_backend", "closed_at_owner_termination", "explicit_close_by_owner", "open_resource_with_live_owner_at_quiescence", "operation_on_closed_resource(not judged)", "redundant_close_noop"];
