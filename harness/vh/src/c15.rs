//! C15 — failures are contained and propagate only to awaiters; workers never crash.
use crate::c03::{run_once, sched_variants, trouble_sig, witness};
use crate::procsys::*;
use crate::qv;
use crate::report::{Report, Violation};
use crate::rng::Rng;
use crate::scen::*;
use crate::simnet::*;
use serde_json::json;
use std::collections::BTreeMap;

fn error_matches(kind: FailKind, e: &quiver_core::error::Error) -> bool {
    use quiver_core::error::Error as QE;
    match (kind, e) {
        (FailKind::DivZero | FailKind::ModZero | FailKind::BadSlice | FailKind::SqrtNeg, QE::InvalidArgument(_)) => true,
        (FailKind::SendInFilter | FailKind::SpawnInFilter, QE::OperationNotAllowed { .. }) => true,
        _ => false,
    }
}

pub fn check(rep: &Report) {
    let quick = rep.quick();
    // shared-await templates (several awaiters of one target, finished / failed / heap-result targets)
    crate::c04::check_await_templates(rep, "C15", if quick { 60 } else { 1500 }, if quick { 24 } else { 60 });
    let n_scen = if quick { 5000 } else { 80000 };
    let n_sched = if quick { 20 } else { 80 };
    let b = qv::builtins();
    crate::pool::run_indexed(n_scen, 256, |i| {
        let mut rng = Rng::derive(rep.seed, "C15", 0, i as u64);
        let cfg = GenCfg { max_nodes: if i % 3 == 0 { 8 } else { 5 }, max_depth: 3, confluent: true, fail_permille: 450, binaries: i % 2 == 0 };
        let sc = generate(&mut rng, &cfg);
        let nfail = sc.nodes.iter().flat_map(|n| n.body.iter()).filter(|a| matches!(a, Action::Fail(_))).count();
        if nfail == 0 { rep.count("generator_no_failure", 1); return; }
        let src = sc.emit();
        let bc = match compile_entry(&src, &b) {
            Ok(bc) => bc,
            Err(e) => { rep.count("generator_rejects_compile", 1); rep.inconclusive(json!({"why": "scenario did not compile", "err": format!("{:?}", e).chars().take(160).collect::<String>()})); return; }
        };
        let Ok(model) = std::panic::catch_unwind(|| run_model(&sc)) else { rep.count("model_error", 1); return; };
        let names = sc.names();
        let reached = model.fates.values().filter(|f| matches!(f, ModelFate::Failed { .. })).count();
        if reached == 0 { rep.count("failure_not_reached_in_model", 1); return; }
        rep.distinct(sc.hash());
        rep.count("scenarios", 1);
        let propagated = model.fates.iter().filter(|(n, f)| matches!(f, ModelFate::Failed { origin, .. } if origin != *n)).count();
        if propagated > 0 { rep.count("scenarios_with_propagation_to_awaiter", 1); }
        if model.fates.values().any(|f| matches!(f, ModelFate::Blocked)) { rep.count("scenarios_with_blocked_bystander", 1); }
        if model.fates.values().any(|f| matches!(f, ModelFate::Done(_))) { rep.count("scenarios_with_unaffected_process", 1); }
        for n in &sc.nodes { for a in &n.body { if let Action::Fail(k) = a { rep.count(&format!("fail_kind={:?}", k), 1); } } }
        if rep.want_sample() { rep.sample(json!({"scenario_source": src, "model_fates": model.fates.iter().map(|(n, f)| (names[n].clone(), format!("{:?}", f).chars().take(80).collect::<String>())).collect::<BTreeMap<_, _>>()})); }
        let scheds = sched_variants(&mut rng, n_sched);
        for cfg in &scheds {
            let obs = run_once(&bc, &b, cfg, 200_000);
            rep.eval(1);
            rep.set_insert("schedule_hashes", obs.sim.schedule_hash());
            for (k, v) in &obs.sim.situations { if k.starts_with("await_answer") || k.starts_with("deliver_to_finished") || k.starts_with("query_target") { rep.count(k, *v); } }
            let viol = |sig: &str, what: String| rep.violation(Violation { signature: format!("C15:{}", sig), what, witness: witness(&sc, &src, cfg, &obs.sim) });
            match &obs.end {
                RunEnd::Quiescent => {}
                RunEnd::StepCap => { rep.inconclusive(json!({"why": "step cap"})); continue; }
                RunEnd::Trouble(t) => { viol(&format!("crash:{}", trouble_sig(t)), format!("a worker/environment step crashed or returned an internal error: {:?}", t)); continue; }
                RunEnd::Stopped => {}
            }
            for (node, mf) in &model.fates {
                let name = &names[node];
                let got = obs.fates.get(name);
                match (mf, got) {
                    (ModelFate::Done(v), Some(Fate::Done(g))) => { if &v.to_cv(&names) != g { viol("bystander-value", format!("{} should complete normally with {} but produced {}", name, v.to_cv(&names).show(), g.show())); } else { rep.count("unaffected_completed_normally", 1); } }
                    (ModelFate::Done(v), Some(Fate::Failed(e))) => viol("bystander-failed", format!("{} does not await any failed process and should complete with {} but failed with {:?}", name, v.to_cv(&names).show(), e)),
                    (ModelFate::Done(_), Some(Fate::Running)) => viol("bystander-hung", format!("{} should complete normally but never terminated", name)),
                    (ModelFate::Done(_), None) => viol("bystander-hung", format!("{} was never created", name)),
                    (ModelFate::Failed { origin, kind }, Some(Fate::Failed(e))) => {
                        if origin == node {
                            if !error_matches(*kind, e) { viol("wrong-error", format!("{} failed with {:?}, expected the error of {:?}", name, e, kind)); }
                        } else {
                            match obs.fates.get(&names[origin]) {
                                Some(Fate::Failed(oe)) if oe == e => rep.count("awaiter_failed_with_same_error", 1),
                                other => viol("awaiter-different-error", format!("{} awaits failed {} and ended with {:?}, the failed process ended with {:?}", name, names[origin], e, other)),
                            }
                        }
                    }
                    (ModelFate::Failed { origin, .. }, Some(Fate::Done(g))) => viol(if origin == node { "failure-ignored" } else { "awaiter-not-failed" }, format!("{} should fail (origin {}) but completed with {}", name, names[origin], g.show())),
                    (ModelFate::Failed { origin, .. }, Some(Fate::Running) | None) => viol(if origin == node { "failure-hung" } else { "awaiter-hung" }, format!("{} should fail (origin {}) but never terminated", name, names[origin])),
                    (ModelFate::Blocked, Some(Fate::Running)) => rep.count("blocked_bystander_stays_parked", 1),
                    (ModelFate::Blocked, Some(other)) => viol("blocked-but-ended", format!("{} waits for a message that is never sent, but ended with {:?}", name, other)),
                    (ModelFate::Blocked, None) => viol("bystander-hung", format!("{} was never created", name)),
                    (ModelFate::NeverSpawned, None) => {}
                    (ModelFate::NeverSpawned, Some(o)) => viol("spawned-after-failure", format!("{} must never be spawned (its parent fails first) but exists with {:?}", name, o)),
                }
            }
        }
    });
}

pub const RULE: &str = "generated process trees with a failing operation (builtin domain error: division/modulo by zero, bad slice, sqrt of negative; forbidden send/spawn inside a receive filter) at a random position of a random process x SimNet schedules; awaits issued before/during/after the failure arise from the schedule; oracle = scenario model fates (Done(v) | Failed(origin) | Blocked | NeverSpawned) + error equality between the failed process and each awaiter + no panic/Err from any Worker::step / Environment::step; distinct_nontrivial = distinct scenarios whose model reaches the failure";
pub const ASSUME: &[&str] = &["SimNet interleaving model (DESIGN §2.3)", "single-sender scenario model is deterministic (DESIGN §2.4)"];
pub const SITUATIONS: &[&str] = &["scenarios_with_propagation_to_awaiter", "scenarios_with_blocked_bystander", "scenarios_with_unaffected_process", "awaiter_failed_with_same_error", "unaffected_completed_normally", "await_answer_to_finished", "query_target_finished"];
