//! C16 — tail calls run in constant space.
use crate::procsys::*;
use crate::qv::{self, CV};
use crate::report::{Report, Violation};
use crate::rng::Rng;
use crate::simnet::*;
use serde_json::json;

/// (name, template with {N}) — every template iterates ~N times through tail calls only
pub fn shapes(rng: &mut Rng) -> Vec<(&'static str, String)> {
    let k = rng.range(1, 3);
    let body_work = match rng.below(4) { 0 => "[~, 1] __integer_subtract__".to_string(), 1 => format!("[~, {}] __integer_subtract__ [~, {}] __integer_add__", k + 1, k), 2 => "[[~, 2] __integer_subtract__, 1] __integer_add__".to_string(), _ => "[~, 1] __integer_subtract__ =m, m".to_string() };
    vec![
        ("self-in-body", format!("f = #'int {{ | =0 => 0 | {} ^ }}, {{N}} f", body_work)),
        ("self-in-consequence-accumulator", "f = #['int, 'int] { | =[0, acc] => acc | =[n, acc] => [[n, 1] __integer_subtract__, [acc, n] __integer_add__] ^ }, [{N}, 0] f".into()),
        ("self-in-nested-blocks", "f = #'int { =0 => 0 | { x = [~, 1] __integer_subtract__, x { y = ~, y { z = ~, z ^ } } } }, {N} f".into()),
        ("self-after-bindings-in-branch", "f = #'int { | =0 => 0 | a = [~, 1] __integer_subtract__, b = [a, 0] __integer_add__, c = [b, a], c.0 ^ }, {N} f".into()),
        ("self-after-failed-match-in-earlier-branch", "f = #'int { | =A[q] => q | =[p, r] => p | =0 => 0 | [~, 1] __integer_subtract__ ^ }, {N} f".into()),
        ("named-variable-target", "step = #[#^ -> 'int, 'int] { =[self, n] => { | n =0 => 7 | [&self, [n, 1] __integer_subtract__] ^self } }, [&step, {N}] step".into()),
        ("named-after-binding", "step = #[#^ -> 'int, 'int] { =[self, n] => { | n =0 => 7 | m = [n, 1] __integer_subtract__, [&self, m] ^self } }, [&step, {N}] step".into()),
        ("ripple-target-then-loop", "g = #{ 10 }, f = #'int { | =0 => &g ^~ | [~, 1] __integer_subtract__ ^ }, {N} f".into()),
        ("binary-created-and-dropped-per-iteration", "f = #['int, 'bin] { | =[0, b] => b __binary_length__ | =[n, b] => [[n, 1] __integer_subtract__, [b, 0x01] __binary_concat__ [~, 0, 1] __binary_slice__] ^ }, [{N}, 0x00] f".into()),
        ("binary-kept-across-iterations", "f = #['int, 'bin, 'bin] { | =[0, keep, b] => [keep, b] __binary_concat__ __binary_length__ | =[n, keep, b] => [[n, 1] __integer_subtract__, keep, [0x0102, n] __binary_append_one__] ^ }, 1".into()),
        ("tuple-rebuilt-per-iteration", "f = #[n: 'int, acc: ['int, 'int]] { | =[n: 0, acc: a] => a | =[n: n, acc: [p, q]] => [n: [n, 1] __integer_subtract__, acc: [q, [p, 1] __integer_add__]] ^ }, [n: {N}, acc: [0, 0]] f".into()),
        ("string-hole-per-iteration", "f = #['int, Str['bin]] { | =[0, s] => s | =[n, s] => [[n, 1] __integer_subtract__, \"x{\"y\"}\"] ^ }, [{N}, \"\"] f".into()),
        // the per-iteration state update spreads a union-typed value (the spread's temporaries must be gone on every variant's path)
        ("state-update-spreads-a-union-typed-value", "step = #([n: 'int] | [n: 'int, k: 'int]) { | =[n: n] => [n: n, k: 0] | =[n: n, k: k] => [n: n] }, loop = #[([n: 'int] | [n: 'int, k: 'int]), 'int] { | =[s, 0] => s | =[s, i] => [[...s, n: i] step, [i, 1] __integer_subtract__] ^ }, [[n: 0], {N}] loop".into()),
        ("state-update-spreads-a-union-with-a-new-field", "step = #([n: 'int] | [n: 'int, k: 'int]) { | =[n: n] => [n: n, k: 0] | =[n: n, k: k] => [n: n] }, loop = #[([n: 'int] | [n: 'int, k: 'int]), 'int] { | =[s, 0] => s | =[s, i] => { t = [...s, z: i], [[n: t.n] step, [i, 1] __integer_subtract__] ^ } }, [[n: 0], {N}] loop".into()),
        // loops that iterate through `^~` (the idiom of std/iter's advance loops): each hop tail-calls the flowing nilary function
        ("loop-through-ripple-tail-calls", "count = #[#^ -> (#[] -> 'int), 'int] { =[self, n], #{ | n =0 => 0 | [&self, [n, 1] __integer_subtract__] self ^~ } }, t = [&count, {N}] count, t".into()),
        ("loop-through-ripple-tail-calls-capturing-a-binary", "count = #[#^ -> (#[] -> 'int), 'int, 'bin] { =[self, n, b], #{ | n =0 => b __binary_length__ | [&self, [n, 1] __integer_subtract__, [b, 0x01] __binary_concat__ [~, 0, 2] __binary_slice__] self ^~ } }, t = [&count, {N}, 0x0000] count, t".into()),
        // nilary loops: `^` in a function of nil (the argument on the stack is the flowing value)
        ("nilary-receive-loop-in-a-process", "c = @#{ !'int { | =0 => 99 | [] ^ } }, send = #['int, (@'int)] { | =[0, p] => { 0 p, 0 } | =[n, p] => { n p, [[n, 1] __integer_subtract__, &p] ^ } }, [{N}, &c] send, !c".into()),
        ("nilary-receive-loop-with-flowing-value", "c = @#{ !'int { | =0 => 99 | ^ } }, send = #['int, (@'int)] { | =[0, p] => { 0 p, 0 } | =[n, p] => { n p, [[n, 1] __integer_subtract__, &p] ^ } }, [{N}, &c] send, !c".into()),
        ("nilary-loop-draining-own-mailbox", "me = &., fill = #['int, (@'int)] { | =[0, p] => { 0 p, 0 } | =[n, p] => { n p, [[n, 1] __integer_subtract__, &p] ^ } }, [{N}, &me] fill, drain = #{ !'int { | =0 => 7 | [] ^ } }, drain".into()),
        ("receive-loop-one-message-per-iteration", "c = {N} @#'int { | =0 => 99 | n = $, i = !'int, [n, 1] __integer_subtract__ ^ }, send = #['int, (@'int)] { | =[0, p] => 0 | =[n, p] => { n p, [[n, 1] __integer_subtract__, &p] ^ } }, [{N}, &c] send, !c".into()),
        ("receive-loop-binary-messages", "c = {N} @#'int { | =0 => 99 | n = $, i = !'bin, [n, i __binary_length__] __integer_subtract__ ^ }, send = #['int, (@'bin)] { | =[0, p] => 0 | =[n, p] => { [0x, 0x07] __binary_concat__ p, [[n, 1] __integer_subtract__, &p] ^ } }, [{N}, &c] send, !c".into()),
        ("process-receive-loop", "me = &., p = me @#(@'int) { | =parent => { i = !'int, { | i =0 => 0 | [i, 0] __integer_add__ parent, parent ^ } } }, {N} ping = #['int] { $ }, 1".into()),
    ]
}

pub struct Measure { pub frames: usize, pub locals: usize, pub stack: usize, pub slots: usize, pub value: CV }

pub fn measure(src: &str, b: &qv::Builtins) -> Result<Measure, String> {
    let bc = compile_entry(src, b).map_err(|e| format!("{:?}", e))?;
    let mut sim = Sim::new(1, b, true, None);
    sim.set_logging(false);
    let st = start_program(&mut sim, bc)?;
    let mut rng = Rng::new(1);
    let end = sim.run(Strategy::Eager, QuantumPolicy::Fixed(1000), &mut rng, 3_000_000, &|| false, &mut |_s| false);
    if end != RunEnd::Quiescent { return Err(format!("{:?}", end)); }
    sim.settle();
    let root = poll_root(&mut sim, &st).map(|r| canon_root(&sim, &r, st.pid));
    let ex = sim.workers[0].verif_executor();
    let value = match root { Some(Fate::Done(v)) => v, other => return Err(format!("{:?}", other)) };
    Ok(Measure { frames: ex.stats.peak_frame_count, locals: ex.stats.peak_locals_size, stack: ex.stats.peak_stack_size, slots: ex.heap_stats().slots, value })
}

pub fn check(rep: &Report) {
    let quick = rep.quick();
    let rounds = if quick { 6 } else { 60 };
    let b = qv::builtins();
    let mut jobs: Vec<(usize, &'static str, String, u64)> = vec![];
    for r in 0..rounds { let mut rng = Rng::derive(rep.seed, "C16", 0, r as u64); let n = *rng.pick(&[200u64, 500, 1000]); for (k, (name, t)) in shapes(&mut rng).into_iter().enumerate() { if t.contains("{N}") && !name.starts_with("process") && !name.starts_with("binary-kept") { jobs.push((k, name, t, n)); } } }
    crate::pool::run_indexed(jobs.len(), 256, |j| {
        let (_, name, t, n) = &jobs[j];
        let small = t.replace("{N}", &n.to_string());
        let large = t.replace("{N}", &(n * 50).to_string());
        let (ms, ml) = match (measure(&small, &b), measure(&large, &b)) { (Ok(a), Ok(bb)) => (a, bb), (a, bb) => { rep.inconclusive(json!({"why": "shape did not run", "shape": name, "small": a.err(), "large": bb.err()})); rep.count("shapes_not_run", 1); return; } };
        rep.eval(2);
        rep.count(&format!("shape={}", name), 1);
        rep.distinct(crate::rng::fnv64(t.as_bytes()));
        if rep.want_sample() { rep.sample(json!({"shape": name, "program_at_N": small, "N": n, "peaks_at_N": [ms.frames, ms.locals, ms.stack], "peaks_at_50N": [ml.frames, ml.locals, ml.stack], "heap_slots": [ms.slots, ml.slots]})); }
        let viol = |sig: &str, what: String| rep.violation(Violation { signature: format!("C16:{}:{}", sig, name), what: format!("{} — shape `{}` at N={} vs {}: peaks (frames, locals, stack) = ({}, {}, {}) vs ({}, {}, {}), heap slots {} vs {}", what, name, n, n * 50, ms.frames, ms.locals, ms.stack, ml.frames, ml.locals, ml.stack, ms.slots, ml.slots), witness: json!({"program_small": small, "program_large": large}) });
        if ml.frames != ms.frames { viol("frames-grow", "call-frame space grows with the iteration count".into()); }
        else if ml.locals != ms.locals { viol("locals-grow", "local-variable space grows with the iteration count".into()); }
        else if ml.stack != ms.stack { viol("stack-grows", "operand-stack space grows with the iteration count".into()); }
        else if ml.slots > ms.slots + 2 { viol("heap-grows", "binary heap slots grow with the iteration count (dropped binaries are not reclaimed)".into()); }
        else { rep.count("shapes_constant_space_confirmed", 1); }
    });
}

pub const RULE: &str = "tail-recursive shape templates (self `^` in a function body, in a consequence with an accumulator, inside blocks nested three deep, after bindings in the same branch, after failed matches in earlier branches, named `^self` through a passed function incl. after a binding, `^~` on the exit path, a binary created and dropped per iteration, a tuple rebuilt per iteration, a string with a hole per iteration) x random loop bodies x N in {200, 500, 1000}, each executed at N and at 50N on a fresh worker with profiling on; oracle: Executor.stats peak_frame_count / peak_locals_size / peak_stack_size identical at N and 50N, and heap slots at 50N <= slots at N + 2. distinct_nontrivial = distinct shape programs measured";
pub const ASSUME: &[&str] = &["both runs are past warm-up, so equal steady-state peaks are expected exactly", "the bytecode-level counterpart (tail call with surplus operands) is enforced on every emitted function by C07"];
pub const SITUATIONS: &[&str] = &["shape=self-in-body", "shape=self-in-nested-blocks", "shape=named-variable-target", "shape=binary-created-and-dropped-per-iteration", "shape=ripple-target-then-loop", "shape=nilary-receive-loop-in-a-process", "shapes_constant_space_confirmed"];
