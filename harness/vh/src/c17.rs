//! C17 — formatting is a fixpoint and preserves the program and its comments.
use crate::c18::{corpus_items, tokens};
use crate::report::{Report, Violation};
use crate::rng::Rng;
use quiver_compiler::ast::Program as Ast;
use quiver_compiler::{format_program, parse};
use serde_json::json;

fn canonical(p: Ast) -> Ast {
    quiver_compiler::simplify::normalize_blocks(p, &quiver_compiler::simplify::Options { keep: &|_| false, lift: true, group_consequences: false })
}

/// Interpolation-aware comment lexer: returns (byte offset, text after `//`, bracket context) per comment.
pub fn comments(src: &str) -> Vec<(usize, String, char)> {
    let b = src.as_bytes();
    let mut out = vec![];
    let mut i = 0;
    let mut stack: Vec<char> = vec![]; // '[', '{', '(', 'h' (string hole)
    fn scan(b: &[u8], src: &str, i: &mut usize, stack: &mut Vec<char>, out: &mut Vec<(usize, String, char)>, in_hole: bool) {
        let mut brace_depth = 0usize;
        while *i < b.len() {
            let c = b[*i];
            if c == b'/' && b.get(*i + 1) == Some(&b'/') {
                let start = *i;
                let end = src[start..].find('\n').map(|p| start + p).unwrap_or(b.len());
                out.push((start, src[start + 2..end].trim().to_string(), stack.last().copied().unwrap_or('-')));
                *i = end;
                continue;
            }
            if c == b'"' {
                // string
                let multi = src[*i..].starts_with("\"\"\"");
                *i += if multi { 3 } else { 1 };
                loop {
                    if *i >= b.len() { return; }
                    let d = b[*i];
                    if d == b'\\' { *i += 2; continue; }
                    if multi { if src[*i..].starts_with("\"\"\"") { *i += 3; break; } } else if d == b'"' { *i += 1; break; }
                    if d == b'{' { *i += 1; stack.push('h'); scan(b, src, i, stack, out, true); stack.pop(); continue; }
                    *i += 1;
                }
                continue;
            }
            match c {
                b'{' => { brace_depth += 1; stack.push('{'); }
                b'}' => { if brace_depth == 0 { if in_hole { *i += 1; return; } } else { brace_depth -= 1; stack.pop(); } }
                b'[' => stack.push('['), b'(' => stack.push('('),
                b']' | b')' => { if matches!(stack.last(), Some('[') | Some('(')) { stack.pop(); } }
                _ => {}
            }
            *i += 1;
        }
    }
    scan(b, src, &mut i, &mut stack, &mut out, false);
    out
}

fn comment_rule(input: &str, output: &str) -> Result<usize, (&'static str, String, char)> {
    let cin = comments(input);
    let cout = comments(output);
    let s_out: String = cout.iter().map(|c| c.1.clone()).collect::<Vec<_>>().join("\n");
    let mut pos = 0usize;
    let mut covered = vec![false; s_out.len()];
    for (_, text, ctx) in &cin {
        if text.is_empty() { continue; }
        match s_out[pos..].find(text.as_str()) {
            Some(p) => { for k in pos + p..pos + p + text.len() { covered[k] = true; } pos = pos + p + text.len(); }
            None => {
                let kind = if s_out.contains(text.as_str()) { "comment-reordered" } else { "comment-lost" };
                return Err((kind, format!("input comment `// {}` {} (output comments in order: {:?})", text, if kind == "comment-lost" { "does not appear in the output" } else { "appears out of order in the output" }, cout.iter().map(|c| c.1.clone()).collect::<Vec<_>>()), *ctx));
            }
        }
    }
    let leftover: String = s_out.char_indices().filter(|(k, _)| !covered[*k]).map(|(_, c)| c).filter(|c| !c.is_whitespace() && *c != '/').collect();
    if !leftover.is_empty() {
        let ctx = cin.first().map(|c| c.2).unwrap_or('-');
        return Err(("comment-spurious", format!("the output contains comment text not present in any input comment: {:?} (input comments {:?}, output comments {:?})", leftover, cin.iter().map(|c| c.1.clone()).collect::<Vec<_>>(), cout.iter().map(|c| c.1.clone()).collect::<Vec<_>>()), ctx));
    }
    Ok(cin.len())
}

#[derive(Debug)]
pub enum Verdict { Held { comments: usize }, NotParseable, Violation { kind: &'static str, what: String, ctx: String } }

/// the token (category) right before byte offset `at`
fn prev_token_category(src: &str, at: usize) -> &'static str {
    let t = src[..at].trim_end();
    if t.ends_with("=>") { "after-arrow" } else if t.ends_with("~>") { "after-continuation" } else if t.ends_with('|') { "after-bar" } else if t.ends_with('{') { "after-open-brace" } else if t.ends_with('[') { "after-open-bracket" }
    else if t.ends_with('(') { "after-open-paren" } else if t.ends_with(',') { "after-comma" } else if t.ends_with('=') { "after-equals" } else if t.ends_with('}') { "after-close-brace" } else if t.ends_with(']') { "after-close-bracket" }
    else if t.ends_with(':') { "after-colon" } else if t.ends_with('!') { "after-bang" } else if t.ends_with('"') { "after-string" } else if t.is_empty() { "at-start" } else { "after-term" }
}

/// Remove comment number `k` (text up to, not including, the newline).
fn without_comment(src: &str, k: usize) -> Option<String> {
    let cs = comments(src);
    let (at, _, _) = cs.get(k)?;
    let end = src[*at..].find('\n').map(|p| at + p).unwrap_or(src.len());
    let mut start = *at;
    while start > 0 && src.as_bytes()[start - 1] == b' ' { start -= 1; }
    Some(format!("{}{}", &src[..start], &src[end..]))
}

fn cause_without_comments(src: &str, kind: &str, what: &str) -> &'static str {
    if src.contains("\"\"\"") { return "multiline-string"; }
    if kind == "not-idempotent" {
        let first = what.split("--- second ---").next().unwrap_or("");
        let second = what.split("--- second ---").nth(1).unwrap_or("");
        if second.lines().count() < first.lines().count() { return "steps-rejoined-on-second-pass"; }
        return "layout-differs-on-second-pass";
    }
    if src.contains('"') && src.contains('{') { return "string-with-hole"; }
    "other"
}

/// Judge, and on a violation shrink the comments away to find the one(s) that matter; returns the
/// verdict with a root-cause-ish context.
pub fn judge_shrunk(src: &str) -> (Verdict, String) {
    let v = judge(src);
    let Verdict::Violation { kind, .. } = &v else { return (v, src.to_string()) };
    let kind = *kind;
    let mut cur = src.to_string();
    let mut k = comments(&cur).len();
    while k > 0 {
        k -= 1;
        if let Some(cand) = without_comment(&cur, k) {
            if !crate::qv::parses(&cand) { continue; }
            if let Verdict::Violation { kind: k2, .. } = judge(&cand) { if k2 == kind { cur = cand; } }
        }
    }
    let v2 = judge(&cur);
    match v2 {
        Verdict::Violation { kind, what, ctx } => {
            let cs = comments(&cur);
            let ctx = if cs.is_empty() { cause_without_comments(&cur, kind, &what).to_string() } else if matches!(kind, "comment-lost" | "comment-reordered" | "comment-spurious") { ctx } else {
                let (at, _, b) = &cs[0];
                format!("comment-{}", if *b == 'h' { "in-string-hole" } else { prev_token_category(&cur, *at) })
            };
            (Verdict::Violation { kind, what, ctx }, cur)
        }
        other => (other, cur),
    }
}

pub fn judge(src: &str) -> Verdict {
    let r = std::panic::catch_unwind(|| {
        let Ok(ast) = parse(src) else { return Verdict::NotParseable };
        let f = format_program(&ast, src);
        let ctx_of_first_comment = || comments(src).first().map(|(at, _, b)| if *b == 'h' { "in-string-hole".to_string() } else { prev_token_category(src, *at).to_string() }).unwrap_or_else(|| "no-comment".into());
        let re = match parse(&f) { Ok(a) => a, Err(e) => return Verdict::Violation { kind: "reparse-fails", what: format!("formatted output does not parse ({:?}):\n{}", e.kind, f), ctx: ctx_of_first_comment() } };
        let f2 = format_program(&re, &f);
        if f2 != f { return Verdict::Violation { kind: "not-idempotent", what: format!("formatting the output again changes it.\n--- first ---\n{}\n--- second ---\n{}", f, f2), ctx: ctx_of_first_comment() }; }
        if canonical(ast) != canonical(re) { return Verdict::Violation { kind: "program-changed", what: format!("the formatted output denotes a different program.\n--- output ---\n{}", f), ctx: ctx_of_first_comment() }; }
        // `{` is literal in pattern strings; the comment lexer treats it as a hole, so skip the comment rule there
        if src.contains("=\"") && src.contains('{') && src.split("=\"").skip(1).any(|s| s.split('"').next().map(|x| x.contains('{')).unwrap_or(false)) { return Verdict::Held { comments: 0 }; }
        match comment_rule(src, &f) {
            Ok(n) => Verdict::Held { comments: n },
            Err((kind, what, b)) => {
                let at = comments(src).iter().find(|c| what.contains(&format!("`// {}`", c.1))).map(|c| c.0);
                let ctx = match at { Some(at) => if b == 'h' { "in-string-hole".to_string() } else { prev_token_category(src, at).to_string() }, None => "unlocated".to_string() };
                Verdict::Violation { kind, what: format!("{}\n--- output ---\n{}", what, f), ctx }
            }
        }
    });
    match r { Ok(v) => v, Err(p) => Verdict::Violation { kind: "formatter-panic", what: crate::pool::panic_msg(&p), ctx: "panic".into() } }
}

const STRING_SHAPES: &[&str] = &[
    "\"plain\"", "\"esc \\n \\t \\\\ \\\" \\{ end\"", "\"hole {x} end\"", "\"a {\"b//c\" f} d\"", "\"nested {\"in {x} ner\"} out\"", "\"{x}{x}\"", "\"\"", "\"// not a comment\"", "\"tab\\there\"",
    "\"\"\"\n    multi\n      line\n    \"\"\"", "\"\"\"\n    hole {x} here\n    \"\"\"", "\"\"\"\n    one \\\n    two\n    \"\"\"", "\"\"\"\n    trail\\s\n\n    \"\"\"", "\"\"\"\n    q \\\"\"\" q\n    \"\"\"", "\"s {x // a\n }\"", "\"url http://x.y/z\"",
    // strings that end in an escaped backslash (the closing quote follows a backslash that is itself escaped), and runs of them
    "\"a\\\\\"", "\"\\\\\"", "\"x \\\\\\\\\"", "\"q\\\"\\\\\"", "\"{x}\\\\\"",
];

/// type expressions whose rendering needs (or must not get) parentheses: process, function, union and intersection types nested
/// in each other, in alias, parameter and pattern position
const TYPE_SHAPES: &[&str] = &[
    "'r = (x: 'int)\n'w = (y: 'int)\n'p = @('r & 'w)\n1", "'p = @(#'int -> 'bin)\n1", "'p = @('int | 'bin)\n1", "'p = @'int -> 'bin\n1", "'p = @('int | 'bin) -> ('bin | [])\n1",
    "'f = #('int | 'bin) -> ('bin & (x: 'int))\n1", "'f = #(#'int -> 'bin) -> (#'bin -> 'int)\n1", "'f = #@('int | 'bin) -> 'int\n1", "'u = (@'int) | (#'int -> 'int) | A[(@'bin)]\n1",
    "'r = (x: 'int)\n'w = (y: 'int)\nf = #@('r & 'w) { $ }, 1", "f = #(@'int | 'int) { =(@'int) => Yes | No }, 1", "'t = A[(#'int -> 'int), (@('int | 'bin))]\n1", "'l<'t> = Nil | Cons['t, ^]\n'p = @('l<'int> | 'l<'bin>)\n1",
    "x = 5, x =(('int | 'bin))y, y", "'i = ((x: 'int) & (y: 'bin)) | []\n1",
];

pub fn gen_case(seed: u64, idx: u64) -> (&'static str, String) {
    let items = corpus_items();
    let mut rng = Rng::derive(seed, "C17", 0, idx);
    // base: a parseable corpus item
    let base = loop { let it = &items[rng.below(items.len())]; if it.src.len() < 6000 && crate::qv::parses(&it.src) { break it.src.clone(); } };
    let toks = tokens(&base);
    match idx % 8 {
        0 if idx % 64 == 0 => { let t = TYPE_SHAPES[(idx / 64) as usize % TYPE_SHAPES.len()].to_string(); if crate::qv::parses(&t) { ("type-shapes", t) } else { ("corpus", base) } }
        0 => ("corpus", base),
        1 | 2 | 3 => {
            // trivia injection at token boundaries: unique comments and blank lines; keep only if it still parses
            let mut s = base.clone();
            let n = 1 + rng.below(3);
            // before a token, or (a third of the time) right after one — so a comment can touch the code it follows
            let mut points: Vec<usize> = (0..n).filter_map(|_| if toks.is_empty() { None } else { let t = toks[rng.below(toks.len())]; Some(if rng.chance(1, 3) { t.1 } else { t.0 }) }).collect();
            points.sort(); points.dedup();
            for (k, p) in points.iter().enumerate().rev() {
                // (sometimes with no space between the code and the `//`)
                let ins = match rng.below(6) { 0 => "\n\n".to_string(), 1 => format!(" // c{}x{}\n\n", idx % 9973, k), 2 => format!("// c{}x{}\n", idx % 9973, k), _ => format!(" // c{}x{}\n", idx % 9973, k) };
                s.insert_str(*p, &ins);
            }
            if crate::qv::parses(&s) { ("trivia-injection", s) } else { ("corpus", base) }
        }
        4 => {
            // stretch an identifier so that constructs land on both sides of the 40/50/100 column thresholds
            let idents: Vec<&str> = toks.iter().map(|(a, b)| &base[*a..*b]).filter(|t| t.len() <= 6 && t.chars().next().map(|c| c.is_ascii_lowercase()).unwrap_or(false) && t.chars().all(|c| c.is_ascii_alphanumeric() || c == '_')).collect();
            if idents.is_empty() { return ("corpus", base); }
            let id = rng.pick(&idents).to_string();
            let long = format!("{}{}", id, "_".to_string() + &"x".repeat(*rng.pick(&[8usize, 20, 30, 45, 90])));
            let mut s = String::new();
            let mut last = 0;
            for (a, b) in &toks { if &base[*a..*b] == id { s.push_str(&base[last..*a]); s.push_str(&long); last = *b; } }
            s.push_str(&base[last..]);
            if crate::qv::parses(&s) { ("identifier-stretch", s) } else { ("corpus", base) }
        }
        5 => {
            // layout rewrites
            let s = match rng.below(5) { 0 => base.replace(", ", ",\n"), 1 => base.replace('\n', "\n\n"), 2 => base.replace("  ", " "), 3 => base.replace(" ~> ", "\n~> "), _ => base.split('\n').map(|l| l.trim_end().to_string() + "   ").collect::<Vec<_>>().join("\n") };
            if crate::qv::parses(&s) { ("layout-rewrite", s) } else { ("corpus", base) }
        }
        6 => {
            // string shapes in value position, optionally inside structures and with comments around
            let sh = rng.pick(STRING_SHAPES);
            let s = match rng.below(5) { 0 => format!("x = 1, {} // after\ny = 2 // end\n", sh), 1 => format!("x = 1,\ny = [{}, {}] // tail\n", sh, rng.pick(STRING_SHAPES)), 2 => format!("x = 1\n// lead\nf = #'int {{ {} }}", sh), 3 => format!("x = 1, x {{ =1 => {} | {} }}", sh, rng.pick(STRING_SHAPES)), _ => format!("x = 1, [a: {}, // c\n b: 2]", sh) };
            if crate::qv::parses(&s) { ("string-shapes", s) } else { ("corpus", base) }
        }
        _ => {
            // a comment after every k-th token (denser trivia)
            let k = 2 + rng.below(5);
            let mut s = String::new();
            let mut last = 0;
            for (n, (a, _)) in toks.iter().enumerate() { if n % k == k - 1 && n < 40 { s.push_str(&base[last..*a]); s.push_str(&format!("// d{}\n", n)); last = *a; } }
            s.push_str(&base[last..]);
            if crate::qv::parses(&s) { ("dense-comments", s) } else { ("corpus", base) }
        }
    }
}

pub fn check(rep: &Report) {
    let quick = rep.quick();
    let n: usize = if quick { 800_000 } else { 4_000_000 };
    corpus_items();
    crate::pool::run_indexed(n, 64, |i| {
        let (fam, src) = gen_case(rep.seed, i as u64);
        let (v, shrunk) = judge_shrunk(&src);
        rep.eval(1);
        rep.count(&format!("family={}", fam), 1);
        match v {
            Verdict::NotParseable => rep.count("not_parseable(skipped)", 1),
            Verdict::Held { comments } => { rep.distinct(crate::rng::fnv64(src.as_bytes())); if comments > 0 { rep.count("inputs_with_comments_checked", 1); rep.count("comments_tracked", comments as u64); } if rep.want_sample() && fam != "corpus" { rep.sample(json!({"family": fam, "source": src.chars().take(300).collect::<String>()})); } }
            Verdict::Violation { kind, what, ctx } => {
                rep.violation(Violation { signature: format!("C17:{}:{}", kind, ctx), what: format!("[{}] {}\n--- input (shrunk) ---\n{}", fam, what.chars().take(1500).collect::<String>(), shrunk.chars().take(1200).collect::<String>()), witness: json!({"source": src, "shrunk": shrunk, "family": fam, "seed": rep.seed, "index": i}) });
            }
        }
    });
}

pub const RULE: &str = "parseable sources derived from the corpus extracted from the current /repo: the corpus itself; unique `// cNxK` comments and blank lines injected at 1-3 random token boundaries (kept when the parser still accepts); a comment before every k-th token; one identifier stretched by 8..90 characters (constructs cross the 40/50/100-column thresholds); layout rewrites (commas to newlines, doubled newlines, trailing spaces, `~>` continuation lines); string shapes (all escapes, `\\{`, holes containing strings containing `//` and quotes, nested holes, multi-line strings with margins, `\\s`, continuations, `\\\"\"\"`, a comment inside a hole). Oracle: output parses; format(output) == output; canonical AST (normalize_blocks keep=never lift=true) of output == of input; comment rule via an interpolation-aware lexer: every input comment text occurs in the concatenated output comments in order, and nothing else does. distinct_nontrivial = distinct sources for which all clauses held";
pub const ASSUME: &[&str] = &["comment rule skipped when a pattern string contains `{` (literal there; the harness lexer cannot tell)", "two trailing comments joined onto one line are not a violation (both texts survive in order)"];
pub const SITUATIONS: &[&str] = &["family=trivia-injection", "family=identifier-stretch", "family=layout-rewrite", "family=string-shapes", "family=dense-comments", "inputs_with_comments_checked"];

pub type AstProgram = Ast;
pub fn parse_ast(s: &str) -> Result<Ast, String> { parse(s).map_err(|e| format!("{:?}", e)) }
pub fn fmt(a: &Ast, s: &str) -> String { format_program(a, s) }
