//! C18 — the front end is total: any text yields a program or a located error.
use crate::childrun::{self, Died};
use crate::corpus::{self, Item};
use crate::qv;
use crate::report::{Report, Violation};
use crate::rng::Rng;
use quiver_compiler::compiler::ModuleCache;
use quiver_compiler::{Compiler, PackageResolver, parse};
use quiver_core::program::Program;
use serde_json::json;
use std::collections::HashMap;
use std::io::Write;
use std::sync::OnceLock;

static CORPUS: OnceLock<Vec<Item>> = OnceLock::new();
pub fn corpus_items() -> &'static Vec<Item> { CORPUS.get_or_init(|| corpus::load("/repo")) }

/// Crude but span-exact tokenizer (only used to pick mutation points).
pub fn tokens(src: &str) -> Vec<(usize, usize)> {
    let b = src.as_bytes();
    let mut out = vec![];
    let mut i = 0;
    while i < b.len() {
        let c = b[i];
        if c.is_ascii_whitespace() { i += 1; continue; }
        let start = i;
        if c == b'"' {
            i += 1;
            while i < b.len() && b[i] != b'"' { if b[i] == b'\\' { i += 1; } i += 1; }
            i = (i + 1).min(b.len());
        } else if c.is_ascii_alphanumeric() || c == b'_' || c == b'\'' {
            i += 1;
            while i < b.len() && (b[i].is_ascii_alphanumeric() || b[i] == b'_' || b[i] == b'?' || b[i] == b'!') { i += 1; }
        } else if c >= 0x80 {
            i += 1;
            while i < b.len() && (b[i] & 0xC0) == 0x80 { i += 1; }
        } else {
            i += 1;
            // two/three char operators
            for op in ["...", "=>", "~>", "->", "//"] { if src[start..].starts_with(op) { i = start + op.len(); break; } }
        }
        out.push((start, i));
    }
    out
}

pub const TOKEN_SET: &[&str] = &["[", "]", "{", "}", "(", ")", ",", "|", "=>", "=", " = ", "~>", "~", "^", "@", "!", "#", "&", "%", ".", "...", ":", "'int", "'bin", "'t", "x", "Foo", "42", "0x0a", "0x0", "\"s\"", "\"a {b} c\"", "\"", "\"\"\"", "//", "\n", "*", "$", "<", ">", "->", "\\File", "_", "-1", "1.5", "1/2", "'", "%num", "$0", "&.", " ", "é", "\u{1F600}", "\\", "\\{", "'%list", "^1", "@'int", "!'int", "=&y"];

pub struct Ladder { pub name: &'static str, pub prefix: &'static str, pub open: &'static str, pub core: &'static str, pub close: &'static str, pub suffix: &'static str }

pub const LADDERS: &[Ladder] = &[
    Ladder { name: "value-tuple", prefix: "", open: "[", core: "1", close: "]", suffix: "" },
    Ladder { name: "value-named-tuple", prefix: "", open: "A[", core: "1", close: "]", suffix: "" },
    Ladder { name: "value-labelled-tuple", prefix: "", open: "[a: ", core: "1", close: "]", suffix: "" },
    Ladder { name: "value-block", prefix: "1 ", open: "{ ", core: "2", close: " }", suffix: "" },
    Ladder { name: "value-block-branches", prefix: "1 ", open: "{ =2 => 3 | ", core: "4", close: " }", suffix: "" },
    Ladder { name: "value-function", prefix: "", open: "#{ ", core: "1", close: " }", suffix: "" },
    Ladder { name: "value-typed-function", prefix: "", open: "#'int { ", core: "$", close: " }", suffix: "" },
    Ladder { name: "value-spawn", prefix: "", open: "@{ ", core: "1", close: " }", suffix: "" },
    Ladder { name: "value-select", prefix: "", open: "! [", core: "1", close: "]", suffix: "" },
    Ladder { name: "value-string-hole", prefix: "", open: "\"a {", core: "\"x\"", close: "} b\"", suffix: "" },
    Ladder { name: "value-spread", prefix: "a = [x: 1], ", open: "[...", core: "a", close: "]", suffix: "" },
    Ladder { name: "pattern-tuple", prefix: "1 =", open: "[", core: "a", close: "]", suffix: "" },
    Ladder { name: "pattern-named-tuple", prefix: "1 =", open: "A[", core: "a", close: "]", suffix: "" },
    Ladder { name: "pattern-partial", prefix: "1 =", open: "(a: ", core: "b", close: ")", suffix: "" },
    Ladder { name: "pattern-alternation", prefix: "1 =", open: "(1 | ", core: "2", close: ")", suffix: "" },
    Ladder { name: "pattern-type-ascription", prefix: "1 =", open: "[(", core: "'int", close: ")x]", suffix: "" },
    Ladder { name: "binding-pattern-tuple", prefix: "", open: "[", core: "a", close: "]", suffix: " = 1" },
    Ladder { name: "type-tuple", prefix: "'t = ", open: "[", core: "'int", close: "]", suffix: "" },
    Ladder { name: "type-named-tuple", prefix: "'t = ", open: "A[", core: "'int", close: "]", suffix: "" },
    Ladder { name: "type-paren", prefix: "'t = ", open: "(", core: "'int", close: ")", suffix: "" },
    Ladder { name: "type-partial", prefix: "'t = ", open: "(a: ", core: "'int", close: ")", suffix: "" },
    Ladder { name: "type-union-paren", prefix: "'t = ", open: "(A | ", core: "'int", close: ")", suffix: "" },
    Ladder { name: "type-function", prefix: "'t = ", open: "#(", core: "'int", close: ") -> 'int", suffix: "" },
    Ladder { name: "type-function-result", prefix: "'t = ", open: "(#'int -> ", core: "'int", close: ")", suffix: "" },
    Ladder { name: "type-process", prefix: "'t = ", open: "@(", core: "'int", close: ")", suffix: "" },
    Ladder { name: "type-generic-arg", prefix: "'l<'a> = L['a]\n't = ", open: "'l<", core: "'int", close: ">", suffix: "" },
    Ladder { name: "type-recursive", prefix: "'t = ", open: "Nil | C[", core: "^", close: "]", suffix: "" },
    Ladder { name: "fn-param-type-paren", prefix: "f = #", open: "(", core: "'int", close: ")", suffix: " { $ }" },
    Ladder { name: "field-access-chain", prefix: "a = [b: 1], a", open: ".b", core: "", close: "", suffix: "" },
    Ladder { name: "chain-terms", prefix: "f = #'int, 1", open: " f", core: "", close: "", suffix: "" },
    Ladder { name: "sequence-steps", prefix: "1", open: ", 1", core: "", close: "", suffix: "" },
    Ladder { name: "union-members", prefix: "'t = A", open: " | A", core: "", close: "", suffix: "" },
    Ladder { name: "match-chain", prefix: "1", open: " =x", core: "", close: "", suffix: "" },
    Ladder { name: "ampersands", prefix: "f = #'int, ", open: "&", core: "f", close: "", suffix: "" },
    Ladder { name: "carets", prefix: "f = #'int { ", open: "^", core: "", close: "", suffix: " }" },
    Ladder { name: "comment-lines", prefix: "1", open: "\n// c", core: "", close: "", suffix: "\n, 2" },
];

pub fn ladder_text(l: &Ladder, d: usize) -> String { format!("{}{}{}{}{}", l.prefix, l.open.repeat(d), l.core, l.close.repeat(d), l.suffix) }

const BIG: &str = "99999999999999999999999999999999";

pub struct Case { pub family: &'static str, pub text: String }

pub fn gen_case(seed: u64, idx: u64) -> Case {
    let items = corpus_items();
    let mut rng = Rng::derive(seed, "C18", 0, idx);
    let item = &items[rng.below(items.len())];
    let src = &item.src;
    let toks = tokens(src);
    let char_cut = |rng: &mut Rng| { let mut c = rng.below(src.len() + 1); while !src.is_char_boundary(c) { c -= 1; } c };
    match idx % 10 {
        0 => { let c = char_cut(&mut rng); Case { family: "prefix", text: src[..c].to_string() } }
        1 if !toks.is_empty() => { let (a, b) = toks[rng.below(toks.len())]; Case { family: "token-delete", text: format!("{}{}", &src[..a], &src[b..]) } }
        2 if !toks.is_empty() => { let (a, b) = toks[rng.below(toks.len())]; Case { family: "token-duplicate", text: format!("{}{}{}", &src[..b], &src[a..b], &src[b..]) } }
        3 if !toks.is_empty() => { let (a, b) = toks[rng.below(toks.len())]; Case { family: "token-substitute", text: format!("{}{}{}", &src[..a], rng.pick(TOKEN_SET), &src[b..]) } }
        4 => {
            // byte / char level
            let c = char_cut(&mut rng);
            let ins: String = match rng.below(6) { 0 => "\u{0}".into(), 1 => "é".into(), 2 => "\u{1F600}".into(), 3 => "\u{2028}".into(), 4 => ((rng.below(95) as u8 + 32) as char).to_string(), _ => "\t\r\n".into() };
            if rng.chance(1, 2) { Case { family: "char-insert", text: format!("{}{}{}", &src[..c], ins, &src[c..]) } } else { let mut e = c; if e < src.len() { e += 1; while !src.is_char_boundary(e) { e += 1; } } Case { family: "char-replace", text: format!("{}{}{}", &src[..c], ins, &src[e..]) } }
        }
        5 => {
            // numeric extremes in numeric positions
            let nums: Vec<(usize, usize)> = toks.iter().copied().filter(|(a, b)| src[*a..*b].chars().all(|c| c.is_ascii_digit())).collect();
            let text = if !nums.is_empty() && rng.chance(2, 3) { let (a, b) = nums[rng.below(nums.len())]; format!("{}{}{}", &src[..a], rng.pick(&[BIG, "0", "00000000000000000000000000", "18446744073709551616", "9223372036854775808", "4294967296"]), &src[b..]) }
            else { match rng.below(8) { 0 => format!("a = [1], a.{}", BIG), 1 => format!("f = #'int {{ ^{} }}", BIG), 2 => format!("@{}", BIG), 3 => format!("1.{}", BIG), 4 => format!("{}/{}", BIG, BIG), 5 => format!("'t = A | ^{}", BIG), 6 => format!("x = [1], x ${}", BIG), _ => format!("0x{}", "f".repeat(1 + rng.below(41))) } };
            Case { family: "numeric-extreme", text }
        }
        6 => {
            // splice two items
            let other = &items[rng.below(items.len())].src;
            let c = char_cut(&mut rng);
            let mut c2 = rng.below(other.len() + 1); while !other.is_char_boundary(c2) { c2 -= 1; }
            Case { family: "splice", text: format!("{}{}", &src[..c], &other[c2..]) }
        }
        7 => { let n = 1 + rng.below(40); Case { family: "token-soup", text: (0..n).map(|_| *rng.pick(TOKEN_SET)).collect::<Vec<_>>().join(if rng.chance(1, 2) { " " } else { "" }) } }
        8 => {
            let l = rng.pick(LADDERS);
            // ladders already judged superpolynomial by the ladder phase (named in $VERIF_C18_SLOW) are
            // only generated at depths that still finish; their verdict comes from the ladder phase
            let slow = std::env::var("VERIF_C18_SLOW").unwrap_or_default();
            let cap = if slow.split(',').any(|n| n == l.name) { 8 } else { 100 };
            let d = 1 + rng.below(cap);
            Case { family: "nesting", text: ladder_text(l, d) }
        }
        9 if rng.chance(1, 3) => Case { family: "type-declarations", text: type_decl_program(&mut rng) },
        9 if rng.chance(1, 2) => Case { family: "generic-calls", text: generic_calls_program(&mut rng) },
        _ => Case { family: "corpus", text: src.clone() },
    }
}

/// generic functions applied to each other with the type variable in every position of parameter and argument (well typed and
/// not): unification and substitution must terminate with a type or a diagnostic
fn generic_calls_program(rng: &mut Rng) -> String {
    let shapes = ["'t", "['t, 'int]", "['t, 't]", "['int, 't]", "A['t]", "['t, ['t, 'bin]]", "(x: 't)", "'t | []", "#'t -> 't", "['t, 'u]"];
    let args = ["$", "[$, 1]", "[$, $]", "[1, $]", "A[$]", "[$, [$, 0x00]]", "[x: $]", "[[$, $], $]", "&id", "[$, $0]"];
    let mut lines = vec!["id = #<'t>'t { $ }".to_string()];
    let n = 1 + rng.below(3);
    for k in 0..n {
        let p = *rng.pick(&shapes);
        let vars = if p.contains("'u") { "<'t, 'u>" } else { "<'t>" };
        let body = match rng.below(4) { 0 => "$".to_string(), 1 => "$0".to_string(), 2 => format!("{} id", rng.pick(&args)), _ => if k > 0 { format!("{} g{}", rng.pick(&args), rng.below(k)) } else { "$".to_string() } };
        lines.push(format!("g{} = #{}{} {{ {} }}", k, vars, p, body));
    }
    let caller_p = *rng.pick(&shapes);
    lines.push(format!("h = #<'t>{} {{ {} g{} }}", caller_p.replace("'u", "'t"), rng.pick(&args), rng.below(n)));
    lines.push(match rng.below(3) { 0 => "5 h".to_string(), 1 => "[5, 0x01] h".to_string(), _ => "1".to_string() });
    lines.join(if rng.chance(1, 2) { ",\n" } else { ", " })
}

/// well-formed and nearly well-formed type declarations: aliases (plain, parameterised, recursive, nameless default), tuple,
/// partial and named-partial types with labelled and positional fields, spreads of every kind of alias into every kind of
/// bracket, unions and intersections of them — followed by one use, so the compiler resolves them
fn type_decl_program(rng: &mut Rng) -> String {
    fn atom(rng: &mut Rng, d: usize, names: &[String]) -> String {
        match rng.below(if d == 0 { 4 } else { 10 }) {
            0 => "'int".into(), 1 => "'bin".into(), 2 => "[]".into(),
            3 if !names.is_empty() => format!("'{}", rng.pick(names)),
            3 => "A".into(),
            4 | 5 => { let n = rng.below(4); let name = *rng.pick(&["", "", "P", "Q"]); let fs: Vec<String> = (0..n).map(|i| field(rng, d - 1, names, i)).collect(); format!("{}[{}]", name, fs.join(", ")) }
            6 | 7 => { let n = 1 + rng.below(3); let name = *rng.pick(&["", "", "P"]); let fs: Vec<String> = (0..n).map(|i| field(rng, d - 1, names, i)).collect(); format!("{}({})", name, fs.join(", ")) }
            8 => format!("({} | {})", atom(rng, d - 1, names), atom(rng, d - 1, names)),
            _ => format!("({} & {})", atom(rng, d - 1, names), atom(rng, d - 1, names)),
        }
    }
    fn field(rng: &mut Rng, d: usize, names: &[String], i: usize) -> String {
        match rng.below(6) {
            0 if !names.is_empty() => format!("...'{}", rng.pick(names)),
            1 if !names.is_empty() => "...".to_string(),
            2 | 3 => format!("{}: {}", ["x", "y", "z", "w"][i % 4], atom(rng, d, names)),
            _ => atom(rng, d, names),
        }
    }
    let mut names: Vec<String> = vec![]; let mut lines = vec![];
    for k in 0..(1 + rng.below(4)) {
        let n = format!("t{}", k);
        let def = if rng.chance(1, 6) { format!("Nil | Cons[{}, ^]", atom(rng, 1, &names)) } else { atom(rng, 2, &names) };
        // `'a[..., f: T]` spread-update of an earlier alias
        let def = if !names.is_empty() && rng.chance(1, 5) { format!("'{}[..., {}]", rng.pick(&names), field(rng, 1, &names, 2)) } else { def };
        lines.push(if rng.chance(1, 6) { format!("'{}<'p> = {}", n, def.replace("'int", "'p")) } else { format!("'{} = {}", n, def) });
        names.push(n);
    }
    let used = rng.pick(&names).clone();
    lines.push(match rng.below(3) { 0 => format!("f = #'{} {{ $ }}, 1", used), 1 => format!("5 ='{}", used), _ => "1".to_string() });
    lines.join(if rng.chance(1, 2) { "\n" } else { ", " })
}

#[derive(Debug)]
pub struct FrontEnd { pub parse: &'static str, pub compile: &'static str, pub viol: Option<(String, String)>, pub ms: u128, pub us: u128 }

fn position_problem(text: &str, e: &quiver_compiler::parser::Error) -> Option<String> {
    let Some(sp) = e.span else { return None };
    if sp.offset > text.len() { return Some(format!("offset {} beyond input length {}", sp.offset, text.len())); }
    let lines = text.bytes().filter(|c| *c == b'\n').count() + 1;
    if sp.line < 1 || sp.line > lines + 1 { return Some(format!("line {} outside 1..={}", sp.line, lines + 1)); }
    if sp.column < 1 { return Some("column < 1".into()); }
    let expect_line = text.as_bytes()[..sp.offset].iter().filter(|c| **c == b'\n').count() + 1;
    if expect_line != sp.line { return Some(format!("line {} does not correspond to offset {} (which is on line {})", sp.line, sp.offset, expect_line)); }
    None
}

/// parse (+ compile) on a thread with an 8 MiB stack (what `quiv` and the language server have)
pub fn front_end(text: &str) -> FrontEnd {
    let t = text.to_string();
    let h = std::thread::Builder::new().stack_size(8 * 1024 * 1024).spawn(move || {
        let t0 = std::time::Instant::now();
        let pr = std::panic::catch_unwind(|| parse(&t));
        let mut fe = FrontEnd { parse: "ok", compile: "skip", viol: None, ms: 0, us: 0 };
        match pr {
            Err(p) => { fe.parse = "panic"; fe.viol = Some(("parse-panic".into(), crate::pool::panic_msg(&p))); }
            Ok(Err(e)) => {
                fe.parse = "err";
                if e.span.is_none() { fe.parse = "err-nopos"; }
                if let Some(p) = position_problem(&t, &e) { fe.viol = Some(("bad-position".into(), format!("{:?}: {}", e.kind, p))); }
            }
            Ok(Ok(ast)) => {
                let b = qv::builtins_io();
                let cr = std::panic::catch_unwind(std::panic::AssertUnwindSafe(|| {
                    let resolver = PackageResolver::inline();
                    let mut program = Program::new();
                    let mut cache = ModuleCache::new();
                    { let nil_t = program.register_type(quiver_core::types::Type::nil()); Compiler::compile(ast, &HashMap::new(), &mut cache, &resolver, &mut program, nil_t, &HashMap::new(), &b, None).map(|_| ()) }
                }));
                match cr { Err(p) => { fe.compile = "panic"; fe.viol = Some(("compile-panic".into(), crate::pool::panic_msg(&p))); } Ok(Err(_)) => fe.compile = "err", Ok(Ok(())) => fe.compile = "ok" }
            }
        }
        fe.ms = t0.elapsed().as_millis();
        fe.us = t0.elapsed().as_micros();
        fe
    }).expect("spawn");
    h.join().unwrap_or(FrontEnd { parse: "panic", compile: "skip", viol: Some(("thread-died".into(), "front-end thread died".into())), ms: 0, us: 0 })
}

pub fn child_main(seed: u64, from: u64, to: u64, stride: u64, offset: u64) {
    crate::pool::quiet_panics();
    let out = std::io::stdout();
    corpus_items();
    for i in from..to {
        let idx = i * stride + offset;
        let c = gen_case(seed, idx);
        { let mut o = out.lock(); writeln!(o, "CASE {}", idx).ok(); o.flush().ok(); }
        let fe = front_end(&c.text);
        let line = json!({"i": idx, "fam": c.family, "p": fe.parse, "c": fe.compile, "ms": fe.ms as u64, "v": fe.viol.as_ref().map(|v| v.0.clone()), "what": fe.viol.as_ref().map(|v| v.1.clone()), "len": c.text.len()});
        { let mut o = out.lock(); writeln!(o, "RES {}", line).ok(); }
    }
}

/// Ladder scaling (hang discipline, DESIGN §2.8), run in-process by the child `c18-ladders`.
pub fn ladders_child() {
    crate::pool::quiet_panics();
    let out = std::io::stdout();
    for (li, l) in LADDERS.iter().enumerate() {
        let mut times: Vec<(usize, u128)> = vec![];
        let mut d = 1usize;
        let mut verdict = "finished-to-depth-100".to_string();
        let mut viol: Option<(String, String)> = None;
        while d <= 100 {
            { let mut o = out.lock(); writeln!(o, "CASE {}", li * 1000 + d).ok(); o.flush().ok(); }
            let fe = front_end(&ladder_text(l, d));
            times.push((d, fe.us.max(1)));
            if let Some(v) = fe.viol { viol = Some(v); verdict = format!("violation at depth {}", d); break; }
            // predictive stop: if the time is non-trivial and the next measured depth (d+4) would exceed
            // ~3 s by the observed growth, judge now from the last three points 4 levels apart
            let t = |dd: usize| times.iter().find(|(x, _)| *x == dd).map(|x| x.1 as f64);
            if d >= 12 && fe.us > 5_000 {
                if let (Some(a), Some(b), Some(c)) = (t(d - 8), t(d - 4), t(d)) {
                    let (r1, r2) = (b / a, c / b);
                    if c * r2 > 3_000_000.0 || fe.us > 1_500_000 {
                        let per_level = r2.powf(0.25);
                        let extrapolated_s = (c / 1e6) * per_level.powf((100 - d) as f64);
                        if r1 >= 4.0 && r2 >= 4.0 && extrapolated_s > 3600.0 { viol = Some(("hang".into(), format!("parse+compile time grows x{:.1} then x{:.1} per 4 levels of nesting (depth {}: {:.1} ms, {}: {:.1} ms, {}: {:.1} ms); depth 100 extrapolates to {:.1e} s", r1, r2, d - 8, a / 1e3, d - 4, b / 1e3, d, c / 1e3, extrapolated_s))); verdict = "superpolynomial".into(); }
                        else { verdict = format!("slow but not judged a hang at depth {} ({:.0} ms; growth x{:.1}, x{:.1})", d, c / 1e3, r1, r2); }
                        break;
                    }
                }
            }
            if d == 100 { break; }
            d = if d < 8 { d + 1 } else { (d + 4).min(100) };
        }
        let line = json!({"i": li, "ladder": l.name, "times": times.iter().map(|(d, t)| json!([d, (*t as f64 / 1e3)])).collect::<Vec<_>>(), "verdict": verdict, "v": viol.as_ref().map(|v| v.0.clone()), "what": viol.as_ref().map(|v| v.1.clone())});
        { let mut o = out.lock(); writeln!(o, "RES {}", line).ok(); }
    }
}

pub fn check(rep: &Report) {
    let quick = rep.quick();
    let shards = crate::pool::threads() as u64;
    let per_shard: u64 = if quick { 3000 } else { 80000 };
    corpus_items();
    rep.extra("corpus_items", json!(corpus_items().len()));
    // (1) ladders with the hang discipline, in the shipped (faithful) profile
    {
        let bin = childrun::profile_bin("faithful");
        let outp = std::process::Command::new(&bin).arg("c18-ladders").output();
        match outp {
            Ok(o) => {
                let text = String::from_utf8_lossy(&o.stdout).to_string();
                let mut last_case = None;
                let mut table = vec![];
                for l in text.lines() {
                    if let Some(n) = l.strip_prefix("CASE ") { last_case = n.trim().parse::<usize>().ok(); }
                    if let Some(js) = l.strip_prefix("RES ") {
                        let Ok(j) = serde_json::from_str::<serde_json::Value>(js) else { continue };
                        rep.eval(1);
                        let name = j["ladder"].as_str().unwrap_or("").to_string();
                        rep.count("nesting_ladders_measured", 1);
                        table.push(json!({"ladder": name, "verdict": j["verdict"], "times_ms_by_depth": j["times"]}));
                        if let Some(v) = j["v"].as_str() {
                            rep.violation(Violation { signature: format!("C18:{}:{}", v, name), what: format!("nesting ladder `{}`: {}", name, j["what"].as_str().unwrap_or("")), witness: json!({"ladder": name, "times": j["times"], "example_depth_8": ladder_text(LADDERS.iter().find(|l| l.name == name).unwrap(), 8)}) });
                        } else if j["verdict"].as_str().map(|s| s.starts_with("finished")).unwrap_or(false) { rep.count("ladders_finished_to_depth_100", 1); rep.distinct(crate::rng::fnv64(name.as_bytes())); }
                        else { rep.inconclusive(json!({"why": "slow ladder, not judged", "ladder": name, "verdict": j["verdict"]})); }
                    }
                }
                if !o.status.success() {
                    if let Some(c) = last_case { let l = &LADDERS[c / 1000]; rep.eval(1); rep.violation(Violation { signature: format!("C18:abort:{}", l.name), what: format!("nesting ladder `{}` at depth {} killed the process (stack overflow / abort) on an 8 MiB stack", l.name, c % 1000), witness: json!({"text": ladder_text(l, c % 1000)}) }); }
                }
                rep.extra("ladder_table", json!(table));
                let slow: Vec<String> = table.iter().filter(|t| !t["verdict"].as_str().unwrap_or("").starts_with("finished")).filter_map(|t| t["ladder"].as_str().map(|s| s.to_string())).collect();
                // SAFETY: set before any child is spawned / other threads read the environment
                unsafe { std::env::set_var("VERIF_C18_SLOW", slow.join(",")); }
            }
            Err(e) => rep.note(&format!("could not run ladders: {}", e)),
        }
    }
    // (2) mutation families
    let on_res = |profile: &str, j: &serde_json::Value| {
        rep.eval(1);
        let idx = j["i"].as_u64().unwrap_or(0);
        let fam = j["fam"].as_str().unwrap_or("");
        rep.count(&format!("family={}", fam), 1);
        rep.count(&format!("parse={}", j["p"].as_str().unwrap_or("")), 1);
        rep.count(&format!("compile={}", j["c"].as_str().unwrap_or("")), 1);
        let _ = profile;
        if j["ms"].as_u64().unwrap_or(0) > 3000 { rep.count("slow_cases_over_3s", 1); let c = gen_case(rep.seed, idx); rep.inconclusive(json!({"why": "slow case (not judged)", "ms": j["ms"], "family": fam, "text": c.text.chars().take(300).collect::<String>()})); }
        if let Some(v) = j["v"].as_str() {
            let c = gen_case(rep.seed, idx);
            let what = j["what"].as_str().unwrap_or("");
            let sig_detail: String = what.chars().take(48).collect();
            rep.violation(Violation { signature: format!("C18:{}:{}", v, sig_detail), what: format!("{} on input ({} family): {:?}", what, fam, c.text.chars().take(200).collect::<String>()), witness: json!({"text": c.text, "seed": rep.seed, "index": idx}) });
        } else {
            let c = gen_case(rep.seed, idx);
            if fam != "corpus" { rep.distinct(crate::rng::fnv64(c.text.as_bytes())); }
            if rep.want_sample() && fam != "corpus" { rep.sample(json!({"family": fam, "text": c.text.chars().take(160).collect::<String>(), "parse": j["p"], "compile": j["c"]})); }
        }
    };
    let on_died = |profile: &str, idx: u64, how: Died| {
        let c = gen_case(rep.seed, idx);
        match how {
            Died::Stall => { rep.count("stalled_cases", 1); rep.inconclusive(json!({"why": "case exceeded the wall-clock allowance (not judged without a scaling test)", "family": c.family, "text": c.text.chars().take(400).collect::<String>(), "profile": profile})); }
            Died::Abort(st) => { rep.eval(1); rep.violation(Violation { signature: format!("C18:abort:{}", c.family), what: format!("the front end killed the process ({}) on a {} input of {} bytes: {:?}", st, c.family, c.text.len(), c.text.chars().take(200).collect::<String>()), witness: json!({"text": c.text, "seed": rep.seed, "index": idx}) }); }
        }
    };
    childrun::run_sharded(rep, &["faithful"], "c18-child", per_shard, shards, if quick { 30 } else { 90 }, &on_res, &on_died);
}

pub const RULE: &str = "inputs derived from the corpus extracted from the current /repo (test-suite sources, spec/README blocks, std, format/parser/lsp test literals): every-position prefixes, single-token deletion / duplication / substitution (substitutes from the language's token set), character-level insert/replace incl. NUL, multi-byte UTF-8, U+2028 and CRLF, numeric extremes in every numeric position (accessor indices, ^N, @N, decimals, fractions, hex), splices of two programs, token soup, nesting ladders of 36 bracketing/repetition constructs in value, pattern and type position up to depth 100; parse then (if accepted) compile, under catch_unwind on an 8 MiB-stack thread in the release profile inside child processes (aborts/stack overflows attributed to the input). Oracle: no panic/abort, parse error position inside the input and consistent (offset <= len, line matches offset, column >= 1), ladders judged by the hang discipline (x4 growth per 4 levels twice and >1 h extrapolated). distinct_nontrivial = distinct non-corpus inputs judged";
pub const ASSUME: &[&str] = &["slow or stalled non-ladder cases are inconclusive (no structural parameter to scale)", "compile uses the inline (stdlib-only) resolver"];
pub const SITUATIONS: &[&str] = &["family=prefix", "family=token-delete", "family=token-duplicate", "family=token-substitute", "family=char-insert", "family=numeric-extreme", "family=nesting", "family=splice", "family=token-soup", "family=type-declarations", "family=generic-calls", "parse=ok", "parse=err", "compile=ok", "compile=err", "ladders_finished_to_depth_100"];
