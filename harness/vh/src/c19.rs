//! C19 — the dict module behaves as a finite map (incl. partial and full hash collisions).
use crate::qv::{self, CV};
use crate::report::{Report, Violation};
use crate::rng::Rng;
use serde_json::json;
use std::collections::{BTreeMap, HashMap};
use std::sync::OnceLock;

pub type Key = (bool, Vec<u8>); // (is Str, bytes)

pub fn fnv32(b: &[u8]) -> u32 { b.iter().fold(2166136261u32, |h, x| (h ^ *x as u32).wrapping_mul(16777619)) }

pub struct KeyFamilies {
    /// groups of byte strings with identical full 32-bit hash
    pub full: Vec<Vec<Vec<u8>>>,
    /// groups sharing the low 5*k bits (k fragments) but not the full hash, by k
    pub prefix: BTreeMap<usize, Vec<Vec<Vec<u8>>>>,
}

static FAMILIES: OnceLock<KeyFamilies> = OnceLock::new();

pub fn families() -> &'static KeyFamilies {
    FAMILIES.get_or_init(|| {
        // birthday search over short keys
        let mut by_hash: HashMap<u32, Vec<Vec<u8>>> = HashMap::new();
        let n: u32 = 1 << 21;
        // (FNV-1a is collision-free on very short structured keys, so draw random 6-byte keys)
        let mut r = Rng::new(0xD1C7);
        for _ in 0..n {
            let x = r.next();
            let key = x.to_le_bytes()[..6].to_vec();
            by_hash.entry(fnv32(&key)).or_default().push(key);
        }
        let mut full: Vec<Vec<Vec<u8>>> = by_hash.values().filter(|v| v.len() >= 2).cloned().collect();
        full.sort();
        full.truncate(64);
        let mut prefix: BTreeMap<usize, Vec<Vec<Vec<u8>>>> = BTreeMap::new();
        for k in 1..=6usize {
            let mask: u32 = if 5 * k >= 32 { u32::MAX } else { (1u32 << (5 * k)) - 1 };
            let mut groups: HashMap<u32, Vec<Vec<u8>>> = HashMap::new();
            for (h, ks) in by_hash.iter().take(if k <= 3 { 4000 } else { usize::MAX }) { let g = groups.entry(h & mask).or_default(); if g.len() < 4 { g.push(ks[0].clone()); } }
            let mut gs: Vec<Vec<Vec<u8>>> = groups.into_values().filter(|g| g.len() >= 2).collect();
            gs.sort();
            gs.truncate(48);
            prefix.insert(k, gs);
        }
        KeyFamilies { full, prefix }
    })
}

fn key_lit(k: &Key) -> String { if k.0 { format!("Str[{}]", qv::hex(&k.1)) } else { qv::hex(&k.1) } }
fn key_cv(k: &Key) -> CV { if k.0 { CV::Tuple(Some("Str".into()), vec![(None, CV::Bin(k.1.clone()))]) } else { CV::Bin(k.1.clone()) } }

#[derive(Clone, Debug)]
pub enum Obs {
    Get(usize, Key),
    Has(usize, Key),
    Count(usize),
    Entries(usize),
    Keys(usize),
    Values(usize),
}

pub struct History {
    pub src: String,
    pub obs: Vec<Obs>,
    pub versions: Vec<BTreeMap<Key, i64>>,
    pub collision_kinds: Vec<&'static str>,
    pub n_ops: usize,
}

pub fn gen_history(rng: &mut Rng) -> History {
    let fam = families();
    // key pool
    let mut pool: Vec<Key> = vec![];
    let mut kinds = vec![];
    let want = 4 + rng.below(9);
    while pool.len() < want {
        match rng.below(6) {
            0 => { let bl = 1 + rng.below(3); let b = rng.bytes(bl); pool.push((false, b.clone())); pool.push((true, b)); kinds.push("str_and_bin_same_bytes"); }
            1 if !fam.full.is_empty() => { let g = rng.pick(&fam.full); for k in g.iter().take(3) { pool.push((rng.chance(1, 3), k.clone())); } kinds.push("full_32bit_collision"); }
            2 | 3 => { let k = 1 + rng.below(6); if let Some(gs) = fam.prefix.get(&k) { if !gs.is_empty() { let g = rng.pick(gs); for x in g.iter().take(2 + rng.below(2)) { pool.push((false, x.clone())); } kinds.push(match k { 1 => "share_1_fragment", 2 => "share_2_fragments", 3 => "share_3_fragments", 4 => "share_4_fragments", 5 => "share_5_fragments", _ => "share_6_fragments" }); } } }
            _ => { let n = rng.below(6); pool.push((rng.chance(1, 2), rng.bytes(n))); kinds.push("random_key"); }
        }
    }
    pool.sort(); pool.dedup();
    let n_ops = match rng.below(10) { 0 => 150 + rng.below(250), 1 | 2 => 40 + rng.below(60), _ => 5 + rng.below(30) };
    let mut steps: Vec<String> = vec!["d = %dict".into(), "v0 = d.new".into()];
    let mut versions: Vec<BTreeMap<Key, i64>> = vec![BTreeMap::new()];
    let mut next_val = 1i64;
    for _ in 0..n_ops {
        let base = if rng.chance(4, 5) { versions.len() - 1 } else { rng.below(versions.len()) };
        let mut m = versions[base].clone();
        let nv = versions.len();
        match rng.below(12) {
            0..=5 => { let k = rng.pick(&pool).clone(); let val = next_val; next_val += 1; steps.push(format!("v{} = [v{}, {}, {}] d.put", nv, base, key_lit(&k), val)); m.insert(k, val); }
            6..=8 => {
                // remove: prefer present keys
                let k = if !m.is_empty() && rng.chance(3, 4) { let ks: Vec<&Key> = m.keys().collect(); (*rng.pick(&ks)).clone() } else { rng.pick(&pool).clone() };
                steps.push(format!("v{} = [v{}, {}] d.remove", nv, base, key_lit(&k))); m.remove(&k);
            }
            9 => {
                // from a list of pairs (later pairs win), merged over the base
                let cnt = rng.below(5);
                let mut lst = "Nil".to_string();
                let mut pairs = vec![];
                for _ in 0..cnt { let k = rng.pick(&pool).clone(); let val = next_val; next_val += 1; pairs.push((k, val)); }
                for (k, val) in pairs.iter().rev() { lst = format!("Cons[[{}, {}], {}]", key_lit(k), val, lst); }
                if cnt == 0 { continue; }
                steps.push(format!("v{} = [v{}, {} d.from] d.merge", nv, base, lst));
                for (k, val) in pairs { m.insert(k, val); }
            }
            10 => {
                let other = rng.below(versions.len());
                steps.push(format!("v{} = [v{}, v{}] d.merge", nv, base, other));
                for (k, val) in versions[other].clone() { m.insert(k, val); }
            }
            _ => { let k = rng.pick(&pool).clone(); let val = next_val; next_val += 1; steps.push(format!("v{} = [[v{}, {}] d.remove, {}, {}] d.put", nv, base, key_lit(&k), key_lit(&k), val)); m.insert(k, val); }
        }
        versions.push(m);
    }
    // observations over all versions (older ones included)
    let mut obs = vec![];
    let n_obs = 8 + rng.below(24);
    for _ in 0..n_obs {
        let v = if rng.chance(1, 2) { versions.len() - 1 } else { rng.below(versions.len()) };
        obs.push(match rng.below(9) { 0..=3 => Obs::Get(v, rng.pick(&pool).clone()), 4 => Obs::Has(v, rng.pick(&pool).clone()), 5 => Obs::Count(v), 6 => Obs::Entries(v), 7 => Obs::Keys(v), _ => Obs::Values(v) });
    }
    // every key of the final version is also looked up
    let last = versions.len() - 1;
    for k in pool.iter().take(12) { obs.push(Obs::Get(last, k.clone())); }
    let exprs: Vec<String> = obs.iter().map(|o| match o {
        Obs::Get(v, k) => format!("[v{}, {}] d.get", v, key_lit(k)), Obs::Has(v, k) => format!("[v{}, {}] d.has?", v, key_lit(k)),
        Obs::Count(v) => format!("v{} d.count", v), Obs::Entries(v) => format!("v{} d.entries", v), Obs::Keys(v) => format!("v{} d.keys", v), Obs::Values(v) => format!("v{} d.values", v) }).collect();
    steps.push(format!("[\n  {}\n]", exprs.join(",\n  ")));
    History { src: steps.join(",\n"), obs, versions, collision_kinds: kinds, n_ops }
}

fn list_items(mut cv: &CV) -> Option<Vec<CV>> {
    let mut out = vec![];
    loop {
        match cv {
            CV::Tuple(Some(n), fs) if n == "Nil" && fs.is_empty() => return Some(out),
            CV::Tuple(Some(n), fs) if n == "Cons" && fs.len() == 2 => { out.push(fs[0].1.clone()); cv = &fs[1].1; }
            _ => return None,
        }
    }
}

pub fn check(rep: &Report) {
    let quick = rep.quick();
    let n = if quick { 1200 } else { 25000 };
    let b = qv::builtins();
    let fam = families();
    rep.extra("collision_search", json!({"full_32bit_collision_groups": fam.full.len(), "prefix_groups": fam.prefix.iter().map(|(k, v)| (k.to_string(), v.len())).collect::<BTreeMap<_, _>>(), "sample_full_collision": fam.full.first().map(|g| g.iter().map(|k| qv::hex(k)).collect::<Vec<_>>())}));
    crate::pool::run_indexed(n, 256, |i| {
        let mut rng = Rng::derive(rep.seed, "C19", 0, i as u64);
        let h = gen_history(&mut rng);
        let viol = |sig: &str, what: String| rep.violation(Violation { signature: format!("C19:{}", sig), what, witness: json!({"source": h.src}) });
        let outcome = match qv::run_source(&h.src, &b) { Ok((_, _, run)) => run.outcome, Err(e) => { rep.inconclusive(json!({"why": "history program rejected", "err": format!("{:?}", e).chars().take(300).collect::<String>()})); rep.count("generator_rejects_compile", 1); return; } };
        rep.count("histories", 1);
        rep.count("operations", h.n_ops as u64);
        for k in &h.collision_kinds { rep.count(&format!("keys={}", k), 1); }
        if rep.want_sample() { rep.sample(json!({"history_head": h.src.lines().take(12).collect::<Vec<_>>(), "ops": h.n_ops})); }
        let fs = match outcome {
            qv::RunOutcome::Value(CV::Tuple(None, fs)) if fs.len() == h.obs.len() => fs,
            qv::RunOutcome::Error(e) => { rep.eval(1); viol("runtime-error", format!("history of {} operations ended in {:?}", h.n_ops, e)); return; }
            qv::RunOutcome::Panic(p) => { rep.eval(1); viol("panic", p); return; }
            other => { rep.inconclusive(json!({"why": "unexpected result shape", "got": format!("{:?}", other).chars().take(200).collect::<String>()})); return; }
        };
        rep.distinct(crate::rng::fnv64(h.src.as_bytes()));
        for (o, (_, got)) in h.obs.iter().zip(fs.iter()) {
            rep.eval(1);
            let older = |v: &usize| if *v + 1 < h.versions.len() { rep.count("observations_on_older_versions", 1); };
            match o {
                Obs::Get(v, k) => { older(v); let want = h.versions[*v].get(k).map(|x| CV::int(*x)).unwrap_or(CV::nil()); if *got != want { viol("get", format!("get {} on version {} => {} but the map holds {}", key_lit(k), v, got.show(), want.show())); } else if want.is_nil() { rep.count("absent_lookups", 1); } }
                Obs::Has(v, k) => { older(v); let want = if h.versions[*v].contains_key(k) { CV::ok() } else { CV::nil() }; if *got != want { viol("has", format!("has? {} on version {} => {} want {}", key_lit(k), v, got.show(), want.show())); } }
                Obs::Count(v) => { older(v); let want = CV::int(h.versions[*v].len() as i64); if *got != want { viol("count", format!("count of version {} => {} want {}", v, got.show(), want.show())); } }
                Obs::Entries(v) | Obs::Keys(v) | Obs::Values(v) => {
                    older(v);
                    let Some(items) = list_items(got) else { viol("iteration-shape", format!("not a list: {}", got.show())); continue };
                    let mut got_items: Vec<CV> = items;
                    let mut want_items: Vec<CV> = h.versions[*v].iter().map(|(k, val)| match o { Obs::Entries(_) => CV::Tuple(None, vec![(None, key_cv(k)), (None, CV::int(*val))]), Obs::Keys(_) => key_cv(k), _ => CV::int(*val) }).collect();
                    got_items.sort(); want_items.sort();
                    if got_items != want_items { viol("iteration", format!("{:?} of version {} => {:?} want {:?}", match o { Obs::Entries(_) => "entries", Obs::Keys(_) => "keys", _ => "values" }, v, got_items.iter().map(|x| x.show()).collect::<Vec<_>>(), want_items.iter().map(|x| x.show()).collect::<Vec<_>>())); }
                }
            }
        }
    });
}

pub const RULE: &str = "generated histories of 5-400 dict operations (put new/replace, remove present/absent, remove+put, from a pair list, merge of two versions) over adversarial key pools: Str[b] beside b with the same bytes, groups with identical full 32-bit FNV-1a hash found by a birthday search at start-up, groups sharing the first 1..6 five-bit hash fragments, random short keys; every version is retained and get / has? / count / entries / keys / values are observed on the newest and on older versions in one generated program. Oracle: a host-side BTreeMap per version (iteration results compared as multisets). distinct_nontrivial = distinct history programs that ran to completion";
pub const ASSUME: &[&str] = &["values are integers (the module documents that it cannot store nil)", "FNV-1a model of __binary_hash32__ is the one validated by C12"];
pub const SITUATIONS: &[&str] = &["keys=str_and_bin_same_bytes", "keys=full_32bit_collision", "keys=share_1_fragment", "keys=share_3_fragments", "keys=share_6_fragments", "observations_on_older_versions", "absent_lookups"];
