//! C20 — the num module computes exactly, canonically, and propagates absence.
use crate::exact::{Quad, Rat};
use crate::qv::{self, CV};
use crate::report::{Report, Violation};
use crate::rng::Rng;
use num_bigint::{BigInt, Sign};
use num_traits::{One, Signed, Zero};
use serde_json::json;

#[derive(Clone, Debug, PartialEq)]
pub enum Num {
    Nil,
    Int(BigInt),
    /// canonical rational (denominator may be 1: rationals are never lowered by the rational paths)
    Rat(Rat),
    /// b != 0, n square-free > 1
    Surd(Quad),
}

fn coeff_cv(r: &Rat) -> CV { if r.is_int() { CV::Int(r.n.clone()) } else { CV::Tuple(Some("Rational".into()), vec![(None, CV::Int(r.n.clone())), (None, CV::Int(r.d.clone()))]) } }

impl Num {
    pub fn cv(&self) -> CV {
        match self {
            Num::Nil => CV::nil(),
            Num::Int(i) => CV::Int(i.clone()),
            Num::Rat(r) => CV::Tuple(Some("Rational".into()), vec![(None, CV::Int(r.n.clone())), (None, CV::Int(r.d.clone()))]),
            Num::Surd(q) => CV::Tuple(Some("Surd".into()), vec![(None, coeff_cv(&q.a)), (None, coeff_cv(&q.b)), (None, CV::Int(q.n.clone()))]),
        }
    }
    pub fn quad(&self) -> Option<Quad> {
        match self { Num::Nil => None, Num::Int(i) => Some(Quad::rat(Rat::int(i.clone()))), Num::Rat(r) => Some(Quad::rat(r.clone())), Num::Surd(q) => Some(q.clone()) }
    }
    fn is_surd(&self) -> bool { matches!(self, Num::Surd(_)) }
    fn is_rat(&self) -> bool { matches!(self, Num::Rat(_)) }
}

/// the surd kernel's `build`: collapse to the simplest exact form
fn build(q: Quad) -> Num {
    let q = q.normal();
    if q.b.is_zero() { if q.a.is_int() { Num::Int(q.a.n) } else { Num::Rat(q.a) } } else { Num::Surd(q) }
}

#[derive(Clone, Debug, PartialEq)]
pub enum Res { V(Num), Ok, Skip }

fn lit_coeff(rng: &mut Rng, r: &Rat) -> String {
    if r.is_int() { return r.n.to_string(); }
    match rng.below(3) {
        0 => format!("Rational[{}, {}]", r.n, r.d),
        _ => { let k = BigInt::from(1 + rng.below(3)); format!("{}/{}", &r.n * &k, &r.d * &k) }
    }
}

pub fn emit_num(rng: &mut Rng, x: &Num) -> String {
    match x {
        Num::Nil => "[]".into(),
        Num::Int(i) => i.to_string(),
        Num::Rat(r) => if r.is_int() { format!("Rational[{}, 1]", r.n) } else { lit_coeff(rng, r) },
        Num::Surd(q) => format!("Surd[{}, {}, {}]", lit_coeff(rng, &q.a), lit_coeff(rng, &q.b), q.n),
    }
}

fn rand_big(rng: &mut Rng) -> BigInt {
    let pow = |n: u32| BigInt::one() << n;
    let x = match rng.below(16) {
        0 => BigInt::zero(), 1 => BigInt::one(), 2 => BigInt::from(2), 3 => BigInt::from(rng.range(0, 12)), 4 => BigInt::from(rng.range(0, 1000)),
        5 => pow(31), 6 => pow(63) - 1, 7 => pow(63), 8 => pow(63) + 1, 9 => pow(64), 10 => BigInt::from(10).pow(40),
        11 => { let n = 1 + rng.below(38); BigInt::from_bytes_le(Sign::Plus, &rng.bytes(n)) }
        _ => BigInt::from(rng.range(0, 30)),
    };
    if rng.chance(1, 2) { -x } else { x }
}

fn rand_rat(rng: &mut Rng) -> Rat {
    loop { let d = rand_big(rng).abs(); if d.is_zero() { continue; } return Rat::new(rand_big(rng), d); }
}

pub fn rand_num(rng: &mut Rng, radicals: &[BigInt]) -> Num {
    match rng.below(10) {
        0 => Num::Nil,
        1..=3 => Num::Int(rand_big(rng)),
        4..=6 => Num::Rat(rand_rat(rng)),
        _ => {
            let a = if rng.chance(1, 2) { Rat::int(rand_big(rng)) } else { rand_rat(rng) };
            let b = loop { let b = if rng.chance(1, 2) { Rat::int(rand_big(rng)) } else { rand_rat(rng) }; if !b.is_zero() { break b; } };
            Num::Surd(Quad { a, b, n: rng.pick(radicals).clone() })
        }
    }
}

pub const OPS: &[(&str, usize)] = &[("add", 2), ("sub", 2), ("mul", 2), ("div", 2), ("neg", 1), ("abs", 1), ("to_int", 1), ("floor", 1), ("ceil", 1), ("round", 1), ("sign", 1),
    ("min", 2), ("max", 2), ("clamp", 3), ("eq?", 2), ("lt?", 2), ("le?", 2), ("gt?", 2), ("ge?", 2), ("numer", 1), ("denom", 1), ("sqrt", 1)];

fn int(i: i64) -> Num { Num::Int(BigInt::from(i)) }

pub fn model(op: &str, a: &[Num]) -> Res {
    let nil = Res::V(Num::Nil);
    if a.iter().any(|x| *x == Num::Nil) { return nil; }
    let q: Vec<Quad> = a.iter().map(|x| x.quad().unwrap()).collect();
    let any_surd = a.iter().any(|x| x.is_surd());
    let any_rat = a.iter().any(|x| x.is_rat());
    let cmp = |x: &Quad, y: &Quad| -> Option<i32> { x.sub(y).map(|d| d.sign()) };
    match op {
        "add" | "sub" | "mul" => {
            let r = match op { "add" => q[0].add(&q[1]), "sub" => q[0].sub(&q[1]), _ => q[0].mul(&q[1]) };
            let Some(r) = r else { return nil };
            if any_surd { Res::V(build(r)) } else if any_rat { Res::V(Num::Rat(r.a)) } else { Res::V(Num::Int(r.a.n)) }
        }
        "div" => match q[0].div(&q[1]) { None => nil, Some(None) => nil, Some(Some(r)) => if any_surd { Res::V(build(r)) } else { Res::V(Num::Rat(r.a)) } },
        "compare" => match cmp(&q[0], &q[1]) { None => nil, Some(s) => Res::V(int(s as i64)) },
        "neg" => Res::V(match &a[0] { Num::Int(i) => Num::Int(-i), Num::Rat(r) => Num::Rat(r.neg()), Num::Surd(s) => Num::Surd(s.neg()), Num::Nil => unreachable!() }),
        "abs" => Res::V(match &a[0] { Num::Int(i) => Num::Int(i.abs()), Num::Rat(r) => Num::Rat(Rat { n: r.n.abs(), d: r.d.clone() }), Num::Surd(s) => if s.sign() < 0 { Num::Surd(s.neg()) } else { Num::Surd(s.clone()) }, Num::Nil => unreachable!() }),
        "to_int" => Res::V(Num::Int(q[0].trunc())),
        "floor" => Res::V(Num::Int(q[0].floor())),
        "ceil" => Res::V(Num::Int(q[0].ceil())),
        "round" => {
            // nearest, halves away from zero
            let f = q[0].floor();
            let mid = Quad::rat(Rat::new(&f * 2 + 1, BigInt::from(2)));
            let s = q[0].sub(&mid).unwrap().sign();
            Res::V(Num::Int(if s > 0 { f + 1 } else if s < 0 { f } else if f.is_negative() { f } else { f + 1 }))
        }
        "sign" => Res::V(int(q[0].sign() as i64)),
        "min" | "max" => match cmp(&q[0], &q[1]) { None => Res::Skip, Some(s) => { let first = if op == "min" { s <= 0 } else { s >= 0 }; Res::V(if first { a[0].clone() } else { a[1].clone() }) } },
        "clamp" => match (cmp(&q[0], &q[1]), cmp(&q[0], &q[2])) { (Some(lo), Some(hi)) => Res::V(if lo < 0 { a[1].clone() } else if hi > 0 { a[2].clone() } else { a[0].clone() }), _ => Res::Skip },
        "eq?" | "lt?" | "le?" | "gt?" | "ge?" => match cmp(&q[0], &q[1]) { None => nil, Some(s) => { let t = match op { "eq?" => s == 0, "lt?" => s < 0, "le?" => s <= 0, "gt?" => s > 0, _ => s >= 0 }; if t { Res::Ok } else { nil } } },
        "numer" => Res::V(match &a[0] { Num::Int(i) => Num::Int(i.clone()), Num::Rat(r) => Num::Int(r.n.clone()), _ => Num::Nil }),
        "denom" => Res::V(match &a[0] { Num::Int(_) => int(1), Num::Rat(r) => Num::Int(r.d.clone()), _ => Num::Nil }),
        "sqrt" => match &a[0] {
            Num::Surd(_) => nil,
            x => {
                let r = x.quad().unwrap().a;
                if r.sign() < 0 { return nil; }
                if r.is_zero() { return Res::V(int(0)); }
                // sqrt(p/q) = sqrt(p q)/q = k sqrt(m)/q with p q = k^2 m, m square-free
                let pq = &r.n * &r.d;
                let (mut k, mut m, mut d) = (BigInt::one(), pq, BigInt::from(2));
                while &d * &d <= m { if (&m % (&d * &d)).is_zero() { k *= &d; m /= &d * &d; } else { d += 1; } }
                Res::V(build(Quad { a: Rat::zero(), b: Rat::new(k, r.d.clone()), n: m }))
            }
        },
        _ => unreachable!(),
    }
}

pub struct OpCase { pub op: &'static str, pub args: Vec<Num>, pub src: String, pub want: Res }

pub fn gen_ops(rng: &mut Rng, n: usize) -> Vec<OpCase> {
    let radicals: Vec<BigInt> = [2i64, 3, 5, 6, 7, 10, 1073741827].iter().map(|x| BigInt::from(*x)).collect();
    let mut out = vec![];
    while out.len() < n {
        let (op, ar) = *rng.pick(OPS);
        let mut args: Vec<Num> = (0..ar).map(|_| rand_num(rng, &radicals)).collect();
        // make related operands likelier: same radical, equal values, negations
        if ar >= 2 && rng.chance(1, 4) { args[1] = args[0].clone(); }
        if ar >= 2 && rng.chance(1, 3) { if let (Num::Surd(x), Num::Surd(y)) = (args[0].clone(), &mut args[1]) { y.n = x.n.clone(); if rng.chance(1, 3) { y.b = x.b.neg(); } } }
        if op == "sqrt" {
            // trial division is O(sqrt n): keep the radicand small
            args[0] = match rng.below(6) { 0 => Num::Nil, 1 => Num::Int(BigInt::from(rng.range(-3, 5000))), 2 => Num::Int(BigInt::from(rng.range(0, 60)).pow(2)), 3 => Num::Surd(Quad { a: Rat::zero(), b: Rat::int(BigInt::one()), n: BigInt::from(2) }), _ => Num::Rat(Rat::new(BigInt::from(rng.range(-2, 400)), BigInt::from(rng.range(1, 60)))) };
        }
        let lits: Vec<String> = args.iter().map(|a| emit_num(rng, a)).collect();
        let src = if ar == 1 { format!("{} n.{}", lits[0], op) } else { format!("[{}] n.{}", lits.join(", "), op) };
        let want = model(op, &args);
        out.push(OpCase { op, args, src, want });
    }
    out
}

fn res_cv(r: &Res) -> Option<CV> { match r { Res::V(n) => Some(n.cv()), Res::Ok => Some(CV::ok()), Res::Skip => None } }

fn canonical_problem(v: &CV) -> Option<String> {
    // structural canonicity of whatever came back, independent of the model
    use num_integer::Integer;
    match v {
        CV::Tuple(Some(n), fs) if n == "Rational" && fs.len() == 2 => {
            if let (CV::Int(p), CV::Int(q)) = (&fs[0].1, &fs[1].1) {
                if !q.is_positive() { return Some(format!("denominator {} is not positive", q)); }
                if !p.gcd(q).is_one() { return Some(format!("{}/{} is not in lowest terms", p, q)); }
            }
            None
        }
        CV::Tuple(Some(n), fs) if n == "Surd" && fs.len() == 3 => {
            for f in &fs[..2] { if let Some(p) = canonical_problem(&f.1) { return Some(p); } if let CV::Tuple(Some(r), c) = &f.1 { if r == "Rational" { if let CV::Int(d) = &c[1].1 { if d.is_one() { return Some("surd coefficient is an integral rational (not lowered)".into()); } } } } }
            if let CV::Int(b) = &fs[1].1 { if b.is_zero() { return Some("surd with b = 0".into()); } }
            if let CV::Int(n) = &fs[2].1 { if *n <= BigInt::one() { return Some(format!("radical {} is not > 1", n)); } let mut d = BigInt::from(2); while &d * &d <= *n && d < BigInt::from(2000) { if (n % (&d * &d)).is_zero() { return Some(format!("radical {} is not square-free", n)); } d += 1; } }
            None
        }
        _ => None,
    }
}

pub fn check(rep: &Report) {
    let quick = rep.quick();
    let n_prog = if quick { 4000 } else { 80000 };
    let per = 60;
    let b = qv::builtins();
    crate::pool::run_indexed(n_prog, 64, |i| {
        let mut rng = Rng::derive(rep.seed, "C20", 0, i as u64);
        let ops = gen_ops(&mut rng, per);
        let src = format!("n = %num,\n[\n  {}\n]\n", ops.iter().map(|o| o.src.clone()).collect::<Vec<_>>().join(",\n  "));
        let run_src = |s: &str| -> Result<qv::RunOutcome, String> { match qv::run_source(s, &b) { Ok((_, _, run)) => Ok(run.outcome), Err(e) => Err(format!("{:?}", e)) } };
        let judge_one = |o: &OpCase, got: &CV| {
            rep.eval(1);
            rep.count(&format!("op={}", o.op), 1);
            let kinds: String = o.args.iter().map(|a| match a { Num::Nil => 'n', Num::Int(_) => 'i', Num::Rat(_) => 'r', Num::Surd(_) => 's' }).collect();
            rep.set_insert("operand_kind_patterns", crate::rng::fnv64(format!("{}{}", o.op, kinds).as_bytes()));
            if o.args.iter().any(|a| match a { Num::Int(i) => i.bits() > 64, Num::Rat(r) => r.n.bits() > 64 || r.d.bits() > 64, _ => false }) { rep.count("cases_with_operand_beyond_64_bits", 1); }
            if let Some(p) = canonical_problem(got) { rep.violation(Violation { signature: format!("C20:not-canonical:{}", o.op), what: format!("{} => {} : {}", o.src, got.show(), p), witness: json!({"expr": o.src}) }); return; }
            match res_cv(&o.want) {
                None => rep.count("not_judged_incomparable_min_max_clamp", 1),
                Some(want) => {
                    if &want == got { rep.distinct(crate::rng::fnv64(o.src.as_bytes())); if want.is_nil() { rep.count("nil_results_checked", 1); } }
                    else {
                        let kind = if want.is_nil() { "non-nil-where-nil-required" } else if got.is_nil() { "nil-where-number-required" } else { "wrong-value-or-form" };
                        rep.violation(Violation { signature: format!("C20:{}:{}", kind, o.op), what: format!("{} => {} but exact arithmetic gives {}", o.src, got.show(), want.show()), witness: json!({"expr": o.src, "got": got.show(), "want": want.show()}) });
                    }
                }
            }
        };
        if rep.want_sample() { rep.sample(json!({"program_head": src.lines().take(8).collect::<Vec<_>>(), "expected_head": ops.iter().take(6).map(|o| res_cv(&o.want).map(|c| c.show())).collect::<Vec<_>>()})); }
        match run_src(&src) {
            Ok(qv::RunOutcome::Value(CV::Tuple(None, fs))) if fs.len() == ops.len() => { for (o, (_, got)) in ops.iter().zip(fs.iter()) { judge_one(o, got); } }
            other => {
                // isolate: run each operation alone
                rep.count("batches_rerun_individually", 1);
                for o in &ops {
                    match run_src(&format!("n = %num,\n[{}]\n", o.src)) {
                        Ok(qv::RunOutcome::Value(CV::Tuple(None, fs))) if fs.len() == 1 => judge_one(o, &fs[0].1),
                        Ok(qv::RunOutcome::Error(e)) => { rep.eval(1); rep.violation(Violation { signature: format!("C20:runtime-error:{}", o.op), what: format!("{} ended in a runtime error {:?}; the module must yield nil, never an error", o.src, e), witness: json!({"expr": o.src}) }); }
                        Ok(qv::RunOutcome::Panic(p)) => { rep.eval(1); rep.violation(Violation { signature: format!("C20:panic:{}", o.op), what: format!("{} panicked: {}", o.src, p), witness: json!({"expr": o.src}) }); }
                        Err(e) => { rep.eval(1); rep.violation(Violation { signature: format!("C20:rejected:{}", o.op), what: format!("{} was rejected by the compiler: {}", o.src, e.chars().take(200).collect::<String>()), witness: json!({"expr": o.src}) }); }
                        x => { rep.inconclusive(json!({"why": "unexpected shape", "got": format!("{:?}", x).chars().take(200).collect::<String>()})); }
                    }
                }
                let _ = other;
            }
        }
    });
}

pub const RULE: &str = "batches of 60 operations per generated program (`n = %num, [ [x, y] n.add, ... ]`), operands drawn from nil, integers (0, +-1, small, 2^31, 2^63+-1, 2^64, 10^40, random up to 300 bits), canonical rationals of the same magnitudes, surds Surd[a, b, n] with int/rational coefficients and n in {2,3,5,6,7,10, 1073741827}; rationals are written as Rational[p,q], as unreduced fraction literals (kp/kq) to exercise the parser's desugaring; operations add, sub, mul, div, neg, abs, to_int, floor, ceil, round, sign, min, max, clamp, eq?/lt?/le?/gt?/ge?, numer, denom, sqrt (small radicands). Oracle: exact arithmetic in Q(sqrt n) over BigInt with the module's representation rules (ints stay ints, rational paths never lower, surd paths collapse, div always rational, nil for nil operands / division by zero / mixed radicals) + a model-free canonical-form check of every returned value. distinct_nontrivial = distinct operation expressions whose result matched";
pub const ASSUME: &[&str] = &["min/max/clamp on operands with incompatible radicals are not judged (the module documents nil only for nil operands there)", "sqrt is exercised on small radicands only (documented O(sqrt n) trial division)"];
pub const SITUATIONS: &[&str] = &["cases_with_operand_beyond_64_bits", "nil_results_checked", "op=add", "op=div", "op=sign", "op=round", "op=sqrt", "op=clamp"];
