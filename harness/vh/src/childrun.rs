//! Sharded child-process runner: children print `CASE <i>` before and `RES <json>` after each
//! case; a child that dies or stalls is attributed to its last announced case and restarted
//! after it.
use crate::report::Report;
use std::io::{BufRead, BufReader};

pub fn profile_bin(profile: &str) -> String {
    let exe = std::env::current_exe().unwrap();
    let target = exe.parent().unwrap().parent().unwrap();
    format!("{}/{}/vcheck", target.display(), profile)
}

pub enum Died { Abort(String), Stall }

/// Runs `subcmd seed from to stride offset` children. `on_res(profile, json)` for each RES line,
/// `on_died(profile, case_index, how)` for attributed deaths.
pub fn run_sharded(rep: &Report, profiles: &[&str], subcmd: &str, per_shard: u64, shards: u64, stall_secs: u64,
                   on_res: &(dyn Fn(&str, &serde_json::Value) + Sync), on_died: &(dyn Fn(&str, u64, Died) + Sync)) {
    let jobs: Vec<(usize, u64)> = profiles.iter().enumerate().flat_map(|(p, _)| (0..shards).map(move |s| (p, s))).collect();
    crate::pool::run_indexed(jobs.len(), 8, |j| {
        let (p, shard) = jobs[j];
        let profile = profiles[p];
        let bin = profile_bin(profile);
        if !std::path::Path::new(&bin).exists() { rep.note(&format!("profile {} binary missing: {}", profile, bin)); return; }
        let mut from = 0u64;
        let mut restarts = 0;
        while from < per_shard && restarts < 200 {
            let mut child = std::process::Command::new(&bin)
                .args([subcmd, &rep.seed.to_string(), &from.to_string(), &per_shard.to_string(), &shards.to_string(), &shard.to_string(), &rep.tier])
                .stdout(std::process::Stdio::piped()).stderr(std::process::Stdio::null()).spawn().expect("spawn child");
            let stdout = child.stdout.take().unwrap();
            let (tx, rx) = std::sync::mpsc::channel::<String>();
            let reader = std::thread::spawn(move || { for l in BufReader::new(stdout).lines().map_while(Result::ok) { if tx.send(l).is_err() { break; } } });
            let mut last_case: Option<u64> = None;
            let mut stalled = false;
            loop {
                match rx.recv_timeout(std::time::Duration::from_secs(stall_secs)) {
                    Ok(l) => {
                        if let Some(n) = l.strip_prefix("CASE ") { last_case = n.trim().parse().ok(); }
                        else if let Some(js) = l.strip_prefix("RES ") { if let Ok(j) = serde_json::from_str::<serde_json::Value>(js) { on_res(profile, &j); } }
                    }
                    Err(std::sync::mpsc::RecvTimeoutError::Timeout) => { stalled = true; child.kill().ok(); break; }
                    Err(_) => break,
                }
            }
            let status = child.wait().ok();
            reader.join().ok();
            if status.map(|s| s.success()).unwrap_or(false) && !stalled { break; }
            let Some(idx) = last_case else { rep.note("child died before announcing a case"); break; };
            on_died(profile, idx, if stalled { Died::Stall } else { Died::Abort(format!("{:?}", status)) });
            from = (idx - shard) / shards + 1;
            restarts += 1;
        }
    });
}
