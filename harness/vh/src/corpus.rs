//! Corpus extracted from the CURRENT /repo tree at check time: source strings of the test suite,
//! spec/README code blocks, std/*.qv, examples/*.qv, and string literals of format.rs/parser.rs tests.
use std::collections::BTreeSet;

#[derive(Clone, Debug)]
pub struct Item {
    pub origin: String,
    pub src: String,
}

/// Parse a Rust string literal starting at `s[i]` (at `"` or `r`); returns (value, end index).
fn rust_literal(b: &[u8], mut i: usize) -> Option<(String, usize)> {
    if b[i] == b'r' {
        let mut j = i + 1;
        let mut hashes = 0;
        while j < b.len() && b[j] == b'#' { hashes += 1; j += 1; }
        if j >= b.len() || b[j] != b'"' { return None; }
        j += 1;
        let start = j;
        loop {
            if j >= b.len() { return None; }
            if b[j] == b'"' && b[j + 1..].len() >= hashes && b[j + 1..j + 1 + hashes].iter().all(|c| *c == b'#') {
                return Some((String::from_utf8_lossy(&b[start..j]).into_owned(), j + 1 + hashes));
            }
            j += 1;
        }
    }
    if b[i] != b'"' { return None; }
    i += 1;
    let mut out: Vec<u8> = vec![];
    while i < b.len() {
        match b[i] {
            b'"' => return Some((String::from_utf8_lossy(&out).into_owned(), i + 1)),
            b'\\' => {
                i += 1;
                match b.get(i)? {
                    b'n' => out.push(b'\n'), b't' => out.push(b'\t'), b'r' => out.push(b'\r'), b'0' => out.push(0), b'\\' => out.push(b'\\'), b'"' => out.push(b'"'), b'\'' => out.push(b'\''),
                    b'x' => { let h = std::str::from_utf8(b.get(i + 1..i + 3)?).ok()?; out.push(u8::from_str_radix(h, 16).ok()?); i += 2; }
                    b'u' => { let end = b[i..].iter().position(|c| *c == b'}')? + i; let h = std::str::from_utf8(&b[i + 2..end]).ok()?; let c = char::from_u32(u32::from_str_radix(h, 16).ok()?)?; let mut buf = [0u8; 4]; out.extend_from_slice(c.encode_utf8(&mut buf).as_bytes()); i = end; }
                    b'\n' => { while i + 1 < b.len() && (b[i + 1] as char).is_whitespace() { i += 1; } }
                    _ => return None,
                }
                i += 1;
            }
            c => { out.push(c); i += 1; }
        }
    }
    None
}

fn literals_after(text: &str, marker: &str, origin: &str, out: &mut Vec<Item>) {
    let b = text.as_bytes();
    let mut pos = 0;
    while let Some(p) = text[pos..].find(marker) {
        let mut i = pos + p + marker.len();
        while i < b.len() && (b[i] as char).is_whitespace() { i += 1; }
        if i < b.len() && (b[i] == b'"' || (b[i] == b'r' && i + 1 < b.len() && (b[i + 1] == b'"' || b[i + 1] == b'#'))) {
            if let Some((s, end)) = rust_literal(b, i) { out.push(Item { origin: origin.to_string(), src: s }); pos = end; continue; }
        }
        pos = pos + p + marker.len();
    }
}

fn all_literals(text: &str, origin: &str, out: &mut Vec<Item>) {
    let b = text.as_bytes();
    let mut i = 0;
    while i < b.len() {
        // skip line comments and char literals crudely
        if b[i] == b'/' && b.get(i + 1) == Some(&b'/') { while i < b.len() && b[i] != b'\n' { i += 1; } continue; }
        if b[i] == b'\'' { if b.get(i + 2) == Some(&b'\'') { i += 3; continue; } if b.get(i + 1) == Some(&b'\\') && b.get(i + 3) == Some(&b'\'') { i += 4; continue; } }
        let raw = b[i] == b'r' && (b.get(i + 1) == Some(&b'"') || (b.get(i + 1) == Some(&b'#') && (b.get(i + 2) == Some(&b'"') || b.get(i + 2) == Some(&b'#')))) && (i == 0 || !(b[i - 1] as char).is_alphanumeric());
        if b[i] == b'"' || raw {
            if let Some((s, end)) = rust_literal(b, i) { if s.len() >= 2 { out.push(Item { origin: origin.to_string(), src: s }); } i = end; continue; }
        }
        i += 1;
    }
}

fn md_blocks(text: &str, origin: &str, out: &mut Vec<Item>) {
    let mut cur: Option<Vec<&str>> = None;
    for line in text.lines() {
        if line.trim_start().starts_with("```") {
            match cur.take() { Some(lines) => out.push(Item { origin: origin.to_string(), src: lines.join("\n") }), None => if line.trim() == "```quiver" { cur = Some(vec![]); } }
        } else if let Some(c) = cur.as_mut() { c.push(line); }
    }
}

pub fn load(repo: &str) -> Vec<Item> {
    let mut out = vec![];
    if let Ok(rd) = std::fs::read_dir(format!("{}/quiver-tests/tests", repo)) {
        let mut files: Vec<_> = rd.flatten().map(|e| e.path()).filter(|p| p.extension().map(|e| e == "rs").unwrap_or(false)).collect();
        files.sort();
        for f in files {
            let name = f.file_name().unwrap().to_string_lossy().to_string();
            if name.starts_with("zz") { continue; }
            if let Ok(t) = std::fs::read_to_string(&f) { literals_after(&t, "evaluate(", &format!("tests/{}", name), &mut out); }
        }
    }
    for md in ["docs/spec.md", "README.md"] { if let Ok(t) = std::fs::read_to_string(format!("{}/{}", repo, md)) { md_blocks(&t, md, &mut out); } }
    for dir in ["std", "examples"] {
        if let Ok(rd) = std::fs::read_dir(format!("{}/{}", repo, dir)) {
            let mut files: Vec<_> = rd.flatten().map(|e| e.path()).filter(|p| p.extension().map(|e| e == "qv").unwrap_or(false)).collect();
            files.sort();
            for f in files { if let Ok(t) = std::fs::read_to_string(&f) { out.push(Item { origin: format!("{}/{}", dir, f.file_name().unwrap().to_string_lossy()), src: t }); } }
        }
    }
    for f in ["quiver-compiler/src/format.rs", "quiver-compiler/src/parser.rs", "quiver-cli/tests/format.rs", "quiver-lsp/src/analysis.rs"] {
        if let Ok(t) = std::fs::read_to_string(format!("{}/{}", repo, f)) {
            // only the test module part
            let start = t.find("#[cfg(test)]").unwrap_or(if f.contains("/tests/") { 0 } else { t.len() });
            all_literals(&t[start..], f, &mut out);
        }
    }
    // dedup by source
    let mut seen = BTreeSet::new();
    out.retain(|i| seen.insert(i.src.clone()));
    out
}
