//! Exact arithmetic for the models: rationals over BigInt and members of Q(sqrt n).
use num_bigint::BigInt;
use num_integer::Integer;
use num_traits::{One, Signed, Zero};

#[derive(Clone, Debug, PartialEq, Eq)]
pub struct Rat {
    pub n: BigInt,
    pub d: BigInt, // > 0, gcd(n, d) = 1
}

impl Rat {
    pub fn new(n: BigInt, d: BigInt) -> Rat {
        assert!(!d.is_zero());
        let (mut n, mut d) = (n, d);
        if d.is_negative() { n = -n; d = -d; }
        let g = n.gcd(&d);
        if !g.is_one() && !g.is_zero() { n /= &g; d /= &g; }
        Rat { n, d }
    }
    pub fn int(i: BigInt) -> Rat { Rat { n: i, d: BigInt::one() } }
    pub fn zero() -> Rat { Rat::int(BigInt::zero()) }
    pub fn is_zero(&self) -> bool { self.n.is_zero() }
    pub fn is_int(&self) -> bool { self.d.is_one() }
    pub fn sign(&self) -> i32 { if self.n.is_zero() { 0 } else if self.n.is_negative() { -1 } else { 1 } }
    pub fn add(&self, o: &Rat) -> Rat { Rat::new(&self.n * &o.d + &o.n * &self.d, &self.d * &o.d) }
    pub fn sub(&self, o: &Rat) -> Rat { Rat::new(&self.n * &o.d - &o.n * &self.d, &self.d * &o.d) }
    pub fn mul(&self, o: &Rat) -> Rat { Rat::new(&self.n * &o.n, &self.d * &o.d) }
    pub fn div(&self, o: &Rat) -> Rat { assert!(!o.is_zero()); Rat::new(&self.n * &o.d, &self.d * &o.n) }
    pub fn neg(&self) -> Rat { Rat { n: -&self.n, d: self.d.clone() } }
    pub fn cmp(&self, o: &Rat) -> std::cmp::Ordering { (&self.n * &o.d).cmp(&(&o.n * &self.d)) }
    pub fn floor(&self) -> BigInt { self.n.div_floor(&self.d) }
}

/// a + b*sqrt(n), n square-free > 1 when b != 0; n = 1 and b = 0 for a pure rational.
#[derive(Clone, Debug, PartialEq, Eq)]
pub struct Quad {
    pub a: Rat,
    pub b: Rat,
    pub n: BigInt,
}

impl Quad {
    pub fn rat(a: Rat) -> Quad { Quad { a, b: Rat::zero(), n: BigInt::one() } }
    pub fn normal(self) -> Quad { if self.b.is_zero() || self.n.is_one() { let a = if self.n.is_one() { self.a.add(&self.b) } else { self.a }; Quad { a, b: Rat::zero(), n: BigInt::one() } } else { self } }
    /// common radical of two operands, or None when incompatible
    pub fn radical(x: &Quad, y: &Quad) -> Option<BigInt> {
        if x.b.is_zero() { Some(y.n.clone()) } else if y.b.is_zero() { Some(x.n.clone()) } else if x.n == y.n { Some(x.n.clone()) } else { None }
    }
    pub fn sign(&self) -> i32 {
        let (sa, sb) = (self.a.sign(), self.b.sign());
        if sb == 0 { return sa; }
        if sa == 0 { return sb; }
        if sa == sb { return sa; }
        // opposite signs: compare a^2 with b^2 n
        let a2 = self.a.mul(&self.a);
        let b2n = self.b.mul(&self.b).mul(&Rat::int(self.n.clone()));
        match a2.cmp(&b2n) { std::cmp::Ordering::Greater => sa, std::cmp::Ordering::Less => sb, std::cmp::Ordering::Equal => 0 }
    }
    pub fn add(&self, o: &Quad) -> Option<Quad> { let n = Quad::radical(self, o)?; Some(Quad { a: self.a.add(&o.a), b: self.b.add(&o.b), n }.normal()) }
    pub fn sub(&self, o: &Quad) -> Option<Quad> { let n = Quad::radical(self, o)?; Some(Quad { a: self.a.sub(&o.a), b: self.b.sub(&o.b), n }.normal()) }
    pub fn mul(&self, o: &Quad) -> Option<Quad> {
        let n = Quad::radical(self, o)?;
        let rn = Rat::int(n.clone());
        Some(Quad { a: self.a.mul(&o.a).add(&self.b.mul(&o.b).mul(&rn)), b: self.a.mul(&o.b).add(&o.a.mul(&self.b)), n }.normal())
    }
    /// None = incompatible radicals; Some(None) = division by zero
    pub fn div(&self, o: &Quad) -> Option<Option<Quad>> {
        let n = Quad::radical(self, o)?;
        let rn = Rat::int(n.clone());
        let dd = o.a.mul(&o.a).sub(&o.b.mul(&o.b).mul(&rn));
        if dd.is_zero() { return Some(None); }
        let a = self.a.mul(&o.a).sub(&self.b.mul(&o.b).mul(&rn)).div(&dd);
        let b = self.b.mul(&o.a).sub(&self.a.mul(&o.b)).div(&dd);
        Some(Some(Quad { a, b, n }.normal()))
    }
    pub fn neg(&self) -> Quad { Quad { a: self.a.neg(), b: self.b.neg(), n: self.n.clone() } }
    pub fn floor(&self) -> BigInt {
        if self.b.is_zero() { return self.a.floor(); }
        let d = &self.a.d * &self.b.d;
        let p = &self.a.n * &self.b.d;
        let q = &self.b.n * &self.a.d;
        let m = &q * &q * &self.n;
        let s = m.sqrt();
        let fl = if q.is_positive() { &p + &s } else { &p - &s - 1 };
        fl.div_floor(&d)
    }
    pub fn ceil(&self) -> BigInt { -self.neg().floor() }
    pub fn trunc(&self) -> BigInt { if self.sign() >= 0 { self.floor() } else { self.ceil() } }
}
