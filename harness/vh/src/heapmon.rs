//! C06 monitor: independent root walk over every process on a worker + the executor's own
//! accounting (hook H2), evaluated at between-step points.
use crate::qv::E;
use quiver_core::executor::Executor;
use quiver_core::value::{Binary, Value};
use std::collections::BTreeMap;

#[derive(Default, Debug, Clone)]
pub struct HeapObs {
    pub slots: usize,
    pub reachable: usize,
    pub freed: usize,
    pub pending: usize,
    pub exact_mismatch: usize,
    pub roots_by_kind: [u64; 8], // stack, locals, mailbox, result, select sources, receiving, awaiting, constant cache
}

fn walk(v: &Value, occ: &mut BTreeMap<usize, u32>, n: &mut u64) {
    match v {
        Value::Binary(Binary::Heap(i)) => { *occ.entry(*i).or_insert(0) += 1; *n += 1; }
        Value::Tuple(_, fs) | Value::Function(_, fs) => for f in fs.iter() { walk(f, occ, n); },
        _ => {}
    }
}

#[derive(Debug, Clone)]
pub struct HeapViolation {
    pub kind: &'static str,
    pub detail: String,
}

pub fn check_executor(ex: &Executor<E>) -> Result<HeapObs, HeapViolation> {
    let hv = ex.verif_heap_view();
    let sv = ex.verif_sched_view();
    let mut occ: BTreeMap<usize, u32> = BTreeMap::new();
    let mut obs = HeapObs::default();
    for pid in &sv.processes {
        let Some(p) = ex.get_process(*pid) else { continue };
        for v in &p.stack { walk(v, &mut occ, &mut obs.roots_by_kind[0]); }
        for v in &p.locals { walk(v, &mut occ, &mut obs.roots_by_kind[1]); }
        for v in &p.mailbox { walk(v, &mut occ, &mut obs.roots_by_kind[2]); }
        if let Some(Ok(v)) = &p.result { walk(v, &mut occ, &mut obs.roots_by_kind[3]); }
        if let Some(s) = &p.select_state {
            for v in &s.sources { walk(v, &mut occ, &mut obs.roots_by_kind[4]); }
            if let Some((_, v)) = &s.receiving { walk(v, &mut occ, &mut obs.roots_by_kind[5]); }
        }
        for v in p.awaiting.values().flatten() { walk(v, &mut occ, &mut obs.roots_by_kind[6]); }
    }
    for i in &hv.constant_cache { *occ.entry(*i).or_insert(0) += 1; obs.roots_by_kind[7] += 1; }
    obs.slots = hv.slots.len();
    obs.pending = hv.pending_free.len();
    // free list == freed set, no duplicates
    let mut fl = hv.free.clone();
    fl.sort();
    if fl.windows(2).any(|w| w[0] == w[1]) { return Err(HeapViolation { kind: "free-list-duplicate", detail: format!("free list {:?}", hv.free) }); }
    let freed_set: Vec<usize> = (0..hv.slots.len()).filter(|i| hv.slots[*i].freed).collect();
    if fl != freed_set { return Err(HeapViolation { kind: "free-list-mismatch", detail: format!("free list {:?} vs freed flags {:?}", fl, freed_set) }); }
    obs.freed = freed_set.len();
    for (i, s) in hv.slots.iter().enumerate() {
        let n = occ.get(&i).copied().unwrap_or(0);
        if n > 0 { obs.reachable += 1; }
        if n > 0 && s.freed { return Err(HeapViolation { kind: "reachable-freed", detail: format!("slot {} is reachable from {} root occurrence(s) but marked freed", i, n) }); }
        if n > 0 && s.refcount == 0 { return Err(HeapViolation { kind: "reachable-uncounted", detail: format!("slot {} is reachable ({} occurrences) but refcount is 0 (premature free pending)", i, n) }); }
        if n == 0 && s.refcount > 0 { return Err(HeapViolation { kind: "leak-counted-unreachable", detail: format!("slot {} has refcount {} but no root reaches it (leak)", i, s.refcount) }); }
        if s.refcount == 0 && !s.freed && !hv.pending_free.contains(&i) { return Err(HeapViolation { kind: "leak-floating", detail: format!("slot {} ({} bytes) has refcount 0, is not freed and is not queued for reclamation: it will never be reclaimed", i, s.bytes.len()) }); }
        if n != s.refcount && !s.freed { obs.exact_mismatch += 1; }
    }
    for i in occ.keys() { if *i >= hv.slots.len() { return Err(HeapViolation { kind: "dangling-index", detail: format!("a live value refers to heap slot {} but the heap has {} slots", i, hv.slots.len()) }); } }
    Ok(obs)
}
