pub mod pool;
pub mod qv;
pub mod report;
pub mod rng;
pub mod simnet;
pub mod procsys;
pub mod scen;
pub mod c03;
