//! Mock effect backend for C14: mints resource ids, logs every call, completes immediately or
//! later (scheduler decides when the environment steps).
use crate::qv::E;
use quiver_core::effects::{EffectBackend, EffectError, EffectResult, ResultTupleInfo};
use quiver_core::error::Error;
use quiver_core::process::ProcessId;
use quiver_core::value::{Binary, ResourceId, Value};
use quiver_io::NativeEffect;
use std::collections::{BTreeMap, BTreeSet, VecDeque};
use std::sync::{Arc, Mutex};

#[derive(Clone, Debug, PartialEq)]
pub enum Call {
    /// effect reached the backend
    Execute { pid: ProcessId, kind: &'static str, rid: Option<ResourceId>, minted: Option<ResourceId>, ok: bool },
    /// close_resource(rid); `was_open` false = redundant (documented no-op)
    Close { rid: ResourceId, was_open: bool },
}

#[derive(Default)]
pub struct MockState {
    pub calls: Vec<Call>,
    pub open: BTreeSet<ResourceId>,
    pub ever: BTreeSet<ResourceId>,
    /// how a resource went from open to closed, in order (may contain a rid twice = double close)
    pub close_transitions: Vec<(ResourceId, &'static str)>,
    pub next: ResourceId,
    pub deferred: VecDeque<(ProcessId, EffectResult)>,
    pub file_type_id: usize,
    pub dir_type_id: usize,
    pub type_ids_pushed: u64,
    /// deterministic stream deciding which completions are deferred
    pub defer_bits: u64,
    pub contents: BTreeMap<ResourceId, Vec<u8>>,
}

pub struct MockBackend(pub Arc<Mutex<MockState>>);

impl MockBackend {
    pub fn new(defer_bits: u64) -> (Self, Arc<Mutex<MockState>>) {
        let st = Arc::new(Mutex::new(MockState { next: 1, defer_bits, ..Default::default() }));
        (MockBackend(st.clone()), st)
    }
}

pub fn kind_of(e: &NativeEffect) -> &'static str {
    match e {
        NativeEffect::FileOpen { .. } => "FileOpen", NativeEffect::FileRead { .. } => "FileRead", NativeEffect::FileWrite { .. } => "FileWrite",
        NativeEffect::FileFlush { .. } => "FileFlush", NativeEffect::FileClose { .. } => "FileClose",
        NativeEffect::ReadDirOpen { .. } => "DirOpen", NativeEffect::ReadDirNext { .. } => "DirNext", NativeEffect::ReadDirClose { .. } => "DirClose", _ => "Other",
    }
}

/// the resource an effect operates on, read off the effect itself (deliberately not through `Effect::resource_id`, which is the
/// classification the environment's ownership check relies on and therefore part of what is being monitored)
pub fn used_resource(e: &NativeEffect) -> Option<ResourceId> {
    match e {
        NativeEffect::FileOpen { .. } | NativeEffect::Stat { .. } | NativeEffect::ReadDirOpen { .. } | NativeEffect::DnsResolve { .. } | NativeEffect::TcpConnect { .. } | NativeEffect::TcpListen { .. } => None,
        NativeEffect::FileRead { resource_id, .. } | NativeEffect::FileWrite { resource_id, .. } | NativeEffect::FileFlush { resource_id } | NativeEffect::FileClose { resource_id }
        | NativeEffect::ReadDirNext { resource_id } | NativeEffect::ReadDirClose { resource_id } | NativeEffect::DnsNext { resource_id } | NativeEffect::DnsClose { resource_id }
        | NativeEffect::TcpListenerAccept { resource_id } | NativeEffect::TcpListenerClose { resource_id } | NativeEffect::TcpSocketRead { resource_id, .. }
        | NativeEffect::TcpSocketWrite { resource_id, .. } | NativeEffect::TcpSocketClose { resource_id } => Some(*resource_id),
    }
}

pub fn is_close(kind: &str) -> bool { kind == "FileClose" || kind == "DirClose" }

impl EffectBackend for MockBackend {
    type E = E;

    fn execute(&mut self, pid: ProcessId, effect: NativeEffect) -> Result<Option<EffectResult>, Error> {
        let mut st = self.0.lock().unwrap();
        let kind = kind_of(&effect);
        let rid = used_resource(&effect);
        let mut minted = None;
        let result: EffectResult = match &effect {
            NativeEffect::FileOpen { path, .. } => {
                if path.starts_with(b"/missing") { Err(EffectError::NotFound("no such file".into())) } else {
                    let id = st.next; st.next += 1; st.open.insert(id); st.ever.insert(id); minted = Some(id);
                    Ok((Value::Resource(id, st.file_type_id), vec![]))
                }
            }
            NativeEffect::FileWrite { resource_id, data, .. } => {
                if st.open.contains(resource_id) { st.contents.entry(*resource_id).or_default().extend(data); Ok((Value::Integer(data.len().into()), vec![])) } else { Err(EffectError::InvalidArgument(format!("resource {} not open", resource_id))) }
            }
            NativeEffect::FileRead { resource_id, length, .. } => {
                if st.open.contains(resource_id) { let d: Vec<u8> = st.contents.get(resource_id).cloned().unwrap_or_default().into_iter().take(*length).collect(); Ok((Value::Binary(Binary::Heap(0)), vec![d])) } else { Err(EffectError::InvalidArgument(format!("resource {} not open", resource_id))) }
            }
            NativeEffect::FileFlush { resource_id } => if st.open.contains(resource_id) { Ok((Value::ok(), vec![])) } else { Err(EffectError::InvalidArgument("not open".into())) },
            NativeEffect::FileClose { resource_id } => {
                if st.open.remove(resource_id) { st.close_transitions.push((*resource_id, "FileClose")); Ok((Value::ok(), vec![])) } else { Err(EffectError::InvalidArgument("not open".into())) }
            }
            NativeEffect::ReadDirOpen { path } => {
                if path.starts_with(b"/missing") { Err(EffectError::NotFound("no such directory".into())) } else {
                    let id = st.next; st.next += 1; st.open.insert(id); st.ever.insert(id); minted = Some(id);
                    Ok((Value::Resource(id, st.dir_type_id), vec![]))
                }
            }
            NativeEffect::ReadDirNext { resource_id } => if st.open.contains(resource_id) { Ok((Value::Binary(Binary::Heap(0)), vec![b"entry".to_vec()])) } else { Err(EffectError::InvalidArgument(format!("resource {} not open", resource_id))) },
            NativeEffect::ReadDirClose { resource_id } => {
                if st.open.remove(resource_id) { st.close_transitions.push((*resource_id, "DirClose")); Ok((Value::ok(), vec![])) } else { Err(EffectError::InvalidArgument("not open".into())) }
            }
            _ => Err(EffectError::Other("unsupported in mock".into())),
        };
        st.calls.push(Call::Execute { pid, kind, rid, minted, ok: result.is_ok() });
        let defer = st.defer_bits & 1 == 1;
        st.defer_bits = st.defer_bits.rotate_right(1);
        if defer { st.deferred.push_back((pid, result)); Ok(None) } else { Ok(Some(result)) }
    }

    fn process_completions(&mut self) -> Vec<(ProcessId, EffectResult)> {
        let mut st = self.0.lock().unwrap();
        st.deferred.drain(..).collect()
    }

    fn close_resource(&mut self, rid: ResourceId) {
        let mut st = self.0.lock().unwrap();
        let was_open = st.open.remove(&rid);
        if was_open { st.close_transitions.push((rid, "close_resource")); }
        st.calls.push(Call::Close { rid, was_open });
    }

    fn set_type_ids(&mut self, resources: &[String], _results: &[(String, ResultTupleInfo)]) {
        let mut st = self.0.lock().unwrap();
        st.type_ids_pushed += 1;
        if let Some(i) = resources.iter().position(|r| r == "File") { st.file_type_id = i; }
        if let Some(i) = resources.iter().position(|r| r == "Dir") { st.dir_type_id = i; }
    }
}
