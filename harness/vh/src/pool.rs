//! Tiny work pool: run `n` indexed jobs over `threads` OS threads with a chosen stack size.
use std::sync::atomic::{AtomicUsize, Ordering};
use std::sync::Arc;

pub fn threads() -> usize {
    std::env::var("VERIF_THREADS").ok().and_then(|s| s.parse().ok()).unwrap_or_else(|| {
        std::thread::available_parallelism().map(|n| n.get()).unwrap_or(4).min(16)
    })
}

/// Run job(i) for i in 0..n. `job` must be Sync. Stops handing out work when `stop()` is true.
pub fn run_indexed<F>(n: usize, stack_mb: usize, job: F)
where
    F: Fn(usize) + Sync + Send,
{
    let next = Arc::new(AtomicUsize::new(0));
    let t = threads().min(n.max(1));
    std::thread::scope(|s| {
        for _ in 0..t {
            let next = next.clone();
            let job = &job;
            std::thread::Builder::new()
                .stack_size(stack_mb * 1024 * 1024)
                .spawn_scoped(s, move || loop {
                    let i = next.fetch_add(1, Ordering::Relaxed);
                    if i >= n { break; }
                    job(i);
                })
                .expect("spawn");
        }
    });
}

/// Run a closure on a fresh thread with the given stack, catching panics. Returns Err(msg) on panic.
pub fn catch<T: Send, F: FnOnce() -> T + Send>(f: F) -> Result<T, String> {
    match std::panic::catch_unwind(std::panic::AssertUnwindSafe(f)) {
        Ok(v) => Ok(v),
        Err(e) => Err(panic_msg(&e)),
    }
}

pub fn panic_msg(e: &Box<dyn std::any::Any + Send>) -> String {
    if let Some(s) = e.downcast_ref::<&str>() { s.to_string() }
    else if let Some(s) = e.downcast_ref::<String>() { s.clone() }
    else { "<non-string panic>".to_string() }
}

/// Silence the default panic hook output (we catch and attribute panics ourselves).
pub fn quiet_panics() {
    std::panic::set_hook(Box::new(|_| {}));
}


/// Diagnostic watchdog for long checks: names (on stderr) any job that has been running for more than `secs`
/// seconds.  It cannot stop the job; it only tells which input is responsible.
/// hard limit for a single job (seconds) and the property to report it under: a job that runs this long although every run
/// in it is step-capped is reported as a violation (with the input) and the check exits 1 — a hung check decides nothing
static HARD_LIMIT: std::sync::Mutex<Option<(u64, &'static str)>> = std::sync::Mutex::new(None);
pub fn set_hard_limit(secs: u64, prop: &'static str) { *HARD_LIMIT.lock().unwrap() = Some((secs, prop)); }

pub struct Watch { inner: std::sync::Arc<std::sync::Mutex<std::collections::HashMap<usize, (std::time::Instant, String)>>>, done: std::sync::Arc<std::sync::atomic::AtomicBool> }

impl Watch {
    pub fn new(label: &'static str, secs: u64) -> Watch {
        let inner: std::sync::Arc<std::sync::Mutex<std::collections::HashMap<usize, (std::time::Instant, String)>>> = Default::default();
        let done = std::sync::Arc::new(std::sync::atomic::AtomicBool::new(false));
        { let inner = inner.clone(); let done = done.clone(); std::thread::spawn(move || { let mut told: std::collections::HashSet<usize> = Default::default(); while !done.load(std::sync::atomic::Ordering::Relaxed) { std::thread::sleep(std::time::Duration::from_secs(5)); for (j, (t, what)) in inner.lock().unwrap().iter() {
                if t.elapsed().as_secs() > secs && told.insert(*j) { eprintln!("{} slow job {} (>{}s): {}", label, j, secs, what); }
                if let Some((hard, prop)) = *HARD_LIMIT.lock().unwrap() { if t.elapsed().as_secs() > hard {
                    let dir = format!("{}/replays/{}", crate::report::verif_root(), prop); std::fs::create_dir_all(&dir).ok();
                    let path = format!("{}/stalled-{}.json", dir, j);
                    std::fs::write(&path, serde_json::to_string_pretty(&serde_json::json!({"property": prop, "signature": format!("{}:job-does-not-finish", prop), "what": format!("a single job ran for more than {} s although every run in it is step-capped", hard), "witness": {"input": what}})).unwrap()).ok();
                    println!("VIOLATION property={} replay={}", prop, path);
                    println!("  signature={}:job-does-not-finish :: a job ran for more than {} s (input in the replay file)", prop, hard);
                    std::process::exit(1);
                } }
            } } }); }
        Watch { inner, done }
    }
    pub fn enter(&self, j: usize, what: &str) { self.inner.lock().unwrap().insert(j, (std::time::Instant::now(), what.to_string())); }
    pub fn leave(&self, j: usize) { self.inner.lock().unwrap().remove(&j); }
}
impl Drop for Watch { fn drop(&mut self) { self.done.store(true, std::sync::atomic::Ordering::Relaxed); } }
