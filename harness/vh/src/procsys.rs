//! Starting programs on SimNet and collecting per-process outcomes.
use crate::qv::{self, Builtins, CV, E};
use crate::simnet::*;
use quiver_core::bytecode::Bytecode;
use quiver_core::process::ProcessId;
use quiver_core::value::Value;
use quiver_environment::RequestResult;
use std::collections::BTreeMap;

pub struct Started {
    pub pid: ProcessId,
    pub req: u64,
}

pub fn start_program(sim: &mut Sim, bc: Bytecode) -> Result<Started, String> {
    let pid = sim.env.start_process(Some(bc)).map_err(|e| format!("{}", e))?;
    let req = sim.env.request_result(pid, None).map_err(|e| format!("{}", e))?;
    Ok(Started { pid, req })
}

pub type RootResult = Result<(Value, Vec<Vec<u8>>), quiver_core::error::Error>;

pub fn poll_root(sim: &mut Sim, st: &Started) -> Option<RootResult> {
    match sim.env.poll_request(st.req) {
        Ok(Some(RequestResult::Result(r, _))) => Some(r),
        _ => None,
    }
}

#[derive(Debug, Clone, PartialEq)]
pub enum Fate {
    Done(CV),
    Failed(quiver_core::error::Error),
    Running,
}

/// Logical names: root "r"; k-th spawn of parent p is "p/k". Derived from NotifySpawn commands
/// in the order the environment sent them.
pub fn logical_names(sim: &Sim, root: ProcessId) -> BTreeMap<ProcessId, String> {
    let mut names: BTreeMap<ProcessId, String> = BTreeMap::new();
    names.insert(root, "r".to_string());
    let mut counts: BTreeMap<ProcessId, usize> = BTreeMap::new();
    sim.with_log(|log| {
        for e in log.iter().filter(|e| e.stage == Stage::Sent) {
            if let Item::Cmd(quiver_environment::Command::NotifySpawn { process_id, spawned_pid, .. }) = &e.item {
                let k = counts.entry(*process_id).or_insert(0);
                let parent = names.get(process_id).cloned().unwrap_or_else(|| format!("?{}", process_id));
                names.insert(*spawned_pid, format!("{}/{}", parent, *k));
                *k += 1;
            }
        }
    });
    names
}

/// Canonical value with process ids replaced by logical names and refs by first-occurrence index.
pub fn canon_logical(cv: &CV, names: &BTreeMap<ProcessId, String>, refs: &mut Vec<u64>) -> CV {
    match cv {
        CV::Proc(p) => CV::Builtin(format!("@{}", names.get(p).cloned().unwrap_or_else(|| format!("?{}", p)))),
        CV::Ref(r) => {
            let i = match refs.iter().position(|x| x == r) { Some(i) => i, None => { refs.push(*r); refs.len() - 1 } };
            CV::Ref(i as u64)
        }
        CV::Tuple(n, fs) => CV::Tuple(n.clone(), fs.iter().map(|(l, v)| (l.clone(), canon_logical(v, names, refs))).collect()),
        CV::Fn(i, caps) => CV::Fn(*i, caps.iter().map(|c| canon_logical(c, names, refs)).collect()),
        other => other.clone(),
    }
}

/// Fate of every process known to the environment, by logical name.
pub fn fates(sim: &Sim, root: ProcessId) -> BTreeMap<String, Fate> {
    let names = logical_names(sim, root);
    let mut out = BTreeMap::new();
    let program = sim.env.get_program();
    for pid in sim.all_pids() {
        let name = names.get(&pid).cloned().unwrap_or_else(|| format!("?{}", pid));
        let fate = match sim.process(pid) {
            None => Fate::Running,
            Some(p) => match &p.result {
                None => Fate::Running,
                Some(Err(e)) => Fate::Failed(e.clone()),
                Some(Ok(v)) => {
                    // the root is persistent: a sleeping root with frames empty is done
                    if !p.frames.is_empty() { Fate::Running } else {
                        let w = sim.host_of(pid).unwrap();
                        let ex = sim.workers[w].verif_executor();
                        let cv = qv::canon(v, program, program.get_constants(), &|i| ex.get_heap_binary(i).map(|d| d.to_vec()),
                            &|i| program.get_builtins().get(i).map(|b| b.name.clone()).unwrap_or_default());
                        let mut refs = vec![];
                        Fate::Done(canon_logical(&cv, &names, &mut refs))
                    }
                }
            },
        };
        out.insert(name, fate);
    }
    out
}

pub fn canon_root(sim: &Sim, r: &RootResult, root: ProcessId) -> Fate {
    match r {
        Err(e) => Fate::Failed(e.clone()),
        Ok((v, heap)) => {
            let program = sim.env.get_program();
            let cv = qv::canon_extracted(v, heap, program, program.get_constants(), &|i| program.get_builtins().get(i).map(|b| b.name.clone()).unwrap_or_default());
            let names = logical_names(sim, root);
            let mut refs = vec![];
            Fate::Done(canon_logical(&cv, &names, &mut refs))
        }
    }
}

/// Compile a source to entry bytecode for SimNet.
pub fn compile_entry(src: &str, b: &Builtins) -> Result<Bytecode, qv::CompileErr> {
    let cp = qv::compile(src, b)?;
    Ok(cp.program.to_bytecode(Some(cp.entry)))
}

pub fn _unused(_: E) {}

// ---------------------------------------------------------------------------------------------
// REPL sessions on SimNet

use quiver_environment::{Repl, ReplError};

pub struct ReplSession {
    pub sim: Sim,
    pub repl: Repl<E>,
}

#[derive(Debug, Clone, PartialEq)]
pub enum LineOutcome {
    Value(CV),
    /// type definitions only
    NoValue,
    ParseError(String),
    CompileError(String),
    RuntimeError(quiver_core::error::Error),
    EnvError(String),
    /// scheduler trouble / no answer
    Stuck(String),
}

impl ReplSession {
    pub fn new(workers: usize, b: &Builtins, modules: std::collections::HashMap<Vec<String>, String>) -> ReplSession {
        let mut sim = Sim::new(workers, b, false, None);
        let resolver = Box::new(quiver_compiler::PackageResolver::memory(modules));
        let repl = Repl::new(&mut sim.env, resolver, b.clone()).expect("repl");
        ReplSession { sim, repl }
    }

    fn drive(&mut self, strat: Strategy, rng: &mut crate::rng::Rng, done: &mut dyn FnMut(&mut Sim) -> bool) -> RunEnd {
        self.sim.run(strat, QuantumPolicy::Mixed, rng, 200_000, &|| false, done)
    }

    pub fn eval(&mut self, line: &str, strat: Strategy, rng: &mut crate::rng::Rng) -> LineOutcome {
        // process types first (as the real front ends do)
        let tid = match self.sim.env.request_process_types() { Ok(t) => t, Err(e) => return LineOutcome::EnvError(format!("{}", e)) };
        let mut types = None;
        let end = self.drive(strat, rng, &mut |s: &mut Sim| { if let Ok(Some(RequestResult::ProcessTypes(t))) = s.env.poll_request(tid) { types = Some(t); true } else { false } });
        let Some(types) = types else { return LineOutcome::Stuck(format!("process types: {:?}", end)) };
        let rid = match std::panic::catch_unwind(std::panic::AssertUnwindSafe(|| self.repl.evaluate(&mut self.sim.env, line, types))) {
            Err(p) => return LineOutcome::Stuck(format!("evaluate panicked: {}", crate::pool::panic_msg(&p))),
            Ok(Ok(Some(r))) => r,
            Ok(Ok(None)) => return LineOutcome::NoValue,
            Ok(Err(ReplError::Parser(e))) => return LineOutcome::ParseError(format!("{}", e)),
            Ok(Err(ReplError::Compiler(e))) => return LineOutcome::CompileError(format!("{:?}", e)),
            Ok(Err(ReplError::Runtime(e))) => return LineOutcome::RuntimeError(e),
            Ok(Err(ReplError::Environment(e))) => return LineOutcome::EnvError(format!("{}", e)),
        };
        let mut res = None;
        let end = self.drive(strat, rng, &mut |s: &mut Sim| { if let Ok(Some(RequestResult::Result(r, _))) = s.env.poll_request(rid) { res = Some(r); true } else { false } });
        match res {
            Some(Ok((v, heap))) => {
                let program = self.sim.env.get_program();
                LineOutcome::Value(qv::canon_extracted(&v, &heap, program, program.get_constants(), &|i| program.get_builtins().get(i).map(|b| b.name.clone()).unwrap_or_default()))
            }
            Some(Err(e)) => LineOutcome::RuntimeError(e),
            None => LineOutcome::Stuck(format!("{:?}", end)),
        }
    }
}

/// Run a compiled entry on a 1-worker SimNet with a step cap (unlike execute_bytecode_sync this
/// cannot spin forever on a program that blocks in a select).
pub fn run_capped(bc: &Bytecode, b: &Builtins, max_actions: usize) -> qv::RunOutcome {
    let mut sim = Sim::new(1, b, false, None);
    sim.set_logging(false);
    let Ok(st) = start_program(&mut sim, bc.clone()) else { return qv::RunOutcome::Panic("start failed".into()) };
    let mut rng = crate::rng::Rng::new(1);
    let end = sim.run(Strategy::Eager, QuantumPolicy::Fixed(1000), &mut rng, max_actions, &|| false, &mut |_s| false);
    if let RunEnd::Trouble(t) = &end { return qv::RunOutcome::Panic(format!("{:?}", t)); }
    match poll_root(&mut sim, &st) {
        Some(r) => match canon_root(&sim, &r, st.pid) { Fate::Done(v) => qv::RunOutcome::Value(v), Fate::Failed(e) => qv::RunOutcome::Error(e), Fate::Running => qv::RunOutcome::Panic("no result".into()) },
        None => qv::RunOutcome::Panic(format!("no result ({:?})", end)),
    }
}

pub fn run_source_capped(src: &str, b: &Builtins, max_actions: usize) -> Result<qv::RunOutcome, qv::CompileErr> {
    let bc = compile_entry(src, b)?;
    Ok(run_capped(&bc, b, max_actions))
}
