//! Compile / run helpers over the real quiver crates.
use num_bigint::BigInt;
use quiver_compiler::compiler::{Binding, Compiled, ModuleCache};
use quiver_compiler::{Compiler, PackageResolver, parse};
use quiver_core::builtins::BuiltinRegistry;
use quiver_core::bytecode::{Bytecode, Function};
use quiver_core::executor::Executor;
use quiver_core::program::Program;
use quiver_core::types::{Type, TypeLookup};
use quiver_core::value::{Binary, Value};
use quiver_io::NativeEffect;
use std::collections::HashMap;

pub type E = NativeEffect;
pub type Builtins = BuiltinRegistry<E>;

pub fn builtins() -> Builtins {
    BuiltinRegistry::<E>::with_modules(&quiver_core::builtins::core_modules())
}

pub fn builtins_io() -> Builtins {
    let mut b = builtins();
    quiver_io::attach_network_builtins(&mut b);
    quiver_io::attach_file_builtins(&mut b);
    b
}

#[derive(Debug, Clone)]
pub enum CompileErr {
    Parse(String),
    Compile(String),
}

pub struct CompiledProgram {
    pub program: Program,
    pub entry: usize,
    pub result_type: usize,
    pub receive_type: usize,
    pub bindings: HashMap<String, Binding>,
}

/// parse + compile a whole source as a nil-parameter wrapper function (what the CLI does).
pub fn compile_with(src: &str, modules: Option<HashMap<Vec<String>, String>>, b: &Builtins) -> Result<CompiledProgram, CompileErr> {
    let ast = parse(src).map_err(|e| CompileErr::Parse(format!("{}", e)))?;
    let resolver = match modules {
        Some(m) => PackageResolver::memory(m),
        None => PackageResolver::inline(),
    };
    let mut program = Program::new();
    let mut cache = ModuleCache::new();
    // as quiver-cli's compile_and_extract_entry does: the top level is a function of nil
    let nil_type_id = program.register_type(Type::nil());
    let c: Compiled = Compiler::compile(ast, &HashMap::new(), &mut cache, &resolver, &mut program, nil_type_id, &HashMap::new(), b, None)
        .map_err(|e| CompileErr::Compile(format!("{:?}", e.error)))?;
    let callable = program.register_type(Type::Callable { parameter: nil_type_id, result: c.result_type, receive: c.receive_type });
    let entry = program.register_function(Function { instructions: c.instructions, captures: 0, type_id: callable });
    Ok(CompiledProgram { program, entry, result_type: c.result_type, receive_type: c.receive_type, bindings: c.bindings })
}

pub fn compile(src: &str, b: &Builtins) -> Result<CompiledProgram, CompileErr> {
    compile_with(src, None, b)
}

/// Canonical, id-independent value for cross-configuration comparison.
#[derive(Debug, Clone, PartialEq, Eq, Hash, PartialOrd, Ord)]
pub enum CV {
    Int(BigInt),
    Bin(Vec<u8>),
    Ref(u64),
    Tuple(Option<String>, Vec<(Option<String>, CV)>),
    Fn(usize, Vec<CV>),
    Builtin(String),
    Proc(usize),
    Res(usize),
}

impl CV {
    pub fn nil() -> CV { CV::Tuple(None, vec![]) }
    pub fn ok() -> CV { CV::Tuple(Some("Ok".into()), vec![]) }
    pub fn is_nil(&self) -> bool { matches!(self, CV::Tuple(None, f) if f.is_empty()) }
    pub fn int(i: i64) -> CV { CV::Int(BigInt::from(i)) }
    pub fn show(&self) -> String {
        match self {
            CV::Int(i) => i.to_string(),
            CV::Bin(b) => format!("0x{}", b.iter().map(|x| format!("{:02x}", x)).collect::<String>()),
            CV::Ref(r) => format!("ref#{}", r),
            CV::Tuple(name, fields) => {
                let n = name.clone().unwrap_or_default();
                if fields.is_empty() { return if n.is_empty() { "[]".into() } else { n }; }
                let fs: Vec<String> = fields.iter().map(|(l, v)| match l { Some(l) => format!("{}: {}", l, v.show()), None => v.show() }).collect();
                format!("{}[{}]", n, fs.join(", "))
            }
            CV::Fn(i, caps) => format!("<fn {} {:?}>", i, caps.iter().map(|c| c.show()).collect::<Vec<_>>()),
            CV::Builtin(n) => format!("<builtin {}>", n),
            CV::Proc(p) => format!("@{}", p),
            CV::Res(r) => format!("\\res{}", r),
        }
    }
}

/// Canonicalise a runtime value given a type lookup (tuple names/labels), a constant table and
/// a heap accessor. Heap binaries are resolved through `heap(idx)`.
pub fn canon<L: TypeLookup>(v: &Value, lookup: &L, constants: &[quiver_core::bytecode::Constant], heap: &dyn Fn(usize) -> Option<Vec<u8>>, builtin_names: &dyn Fn(usize) -> String) -> CV {
    match v {
        Value::Integer(i) => CV::Int(i.clone()),
        Value::Binary(Binary::Constant(i)) => match constants.get(*i) {
            Some(quiver_core::bytecode::Constant::Binary(b)) => CV::Bin(b.clone()),
            _ => CV::Bin(b"<bad-constant>".to_vec()),
        },
        Value::Binary(Binary::Heap(i)) => CV::Bin(heap(*i).unwrap_or_else(|| b"<bad-heap>".to_vec())),
        Value::Reference(r) => CV::Ref(*r),
        Value::Tuple(id, fields) => {
            let info = lookup.lookup_tuple(*id);
            let name = info.and_then(|i| i.name.clone());
            let fs = fields.iter().enumerate().map(|(k, f)| {
                let label = info.and_then(|i| i.fields.get(k)).and_then(|(l, _)| l.clone());
                (label, canon(f, lookup, constants, heap, builtin_names))
            }).collect();
            CV::Tuple(name, fs)
        }
        Value::Function(i, caps) => CV::Fn(*i, caps.iter().map(|c| canon(c, lookup, constants, heap, builtin_names)).collect()),
        Value::Builtin(i) => CV::Builtin(builtin_names(*i)),
        Value::Process(p, _) => CV::Proc(*p),
        Value::Resource(r, _) => CV::Res(*r),
    }
}

pub fn canon_exec(v: &Value, bc: &Bytecode, ex: &Executor<E>) -> CV {
    canon(v, bc, &bc.constants, &|i| ex.get_heap_binary(i).map(|d| d.to_vec()), &|i| bc.builtins.get(i).map(|b| b.name.clone()).unwrap_or_default())
}

/// Canonicalise a (value, extracted heap) pair as carried across the transport.
pub fn canon_extracted<L: TypeLookup>(v: &Value, heap: &[Vec<u8>], lookup: &L, constants: &[quiver_core::bytecode::Constant], builtin_name: &dyn Fn(usize) -> String) -> CV {
    canon(v, lookup, constants, &|i| heap.get(i).cloned(), builtin_name)
}

#[derive(Debug, Clone, PartialEq)]
pub enum RunOutcome {
    Value(CV),
    Error(quiver_core::error::Error),
    Panic(String),
}

pub struct SyncRun {
    pub outcome: RunOutcome,
    pub raw: Option<Value>,
    pub executor: Option<Executor<E>>,
}

/// Execute bytecode synchronously under catch_unwind.
pub fn run_bytecode(bc: &Bytecode, b: &Builtins, profile: bool) -> SyncRun {
    let bc2 = bc.clone();
    let r = std::panic::catch_unwind(std::panic::AssertUnwindSafe(|| quiver_core::execute_bytecode_sync(bc2, b, profile)));
    match r {
        Ok(Ok((v, ex))) => {
            let cv = canon_exec(&v, bc, &ex);
            SyncRun { outcome: RunOutcome::Value(cv), raw: Some(v), executor: Some(ex) }
        }
        Ok(Err(e)) => SyncRun { outcome: RunOutcome::Error(e), raw: None, executor: None },
        Err(p) => SyncRun { outcome: RunOutcome::Panic(crate::pool::panic_msg(&p)), raw: None, executor: None },
    }
}

pub fn run_source(src: &str, b: &Builtins) -> Result<(CompiledProgram, Bytecode, SyncRun), CompileErr> {
    let cp = compile(src, b)?;
    let bc = cp.program.to_bytecode(Some(cp.entry));
    let run = run_bytecode(&bc, b, false);
    Ok((cp, bc, run))
}

/// Classification of runtime errors for C01/C15: stuck-state (type failure) vs documented domain error.
pub fn is_stuck_error(e: &quiver_core::error::Error) -> bool {
    use quiver_core::error::Error::*;
    matches!(e, StackUnderflow | CallInvalid | FunctionUndefined(_) | BuiltinUndefined(_) | FrameUnderflow | VariableUndefined(_)
        | ConstantUndefined(_) | FieldAccessInvalid(_) | TypeMismatch { .. } | ArityMismatch { .. } | TupleEmpty | ScopeCountInvalid { .. } | ScopeUnderflow)
}

pub fn hex(b: &[u8]) -> String {
    format!("0x{}", b.iter().map(|x| format!("{:02x}", x)).collect::<String>())
}

pub fn parses(src: &str) -> bool {
    std::panic::catch_unwind(|| parse(src).is_ok()).unwrap_or(false)
}

pub fn show_type(cp: &CompiledProgram) -> String { quiver_core::format::format_type_by_id(&cp.program, cp.result_type) }
