//! Reference evaluator for the core sequential language, written from docs/spec.md, over the
//! real `quiver_compiler::ast`. Independent of the type checker and of the bytecode. Anything
//! outside its subset yields `Ctl::Unsupported` (the case is then inconclusive, never a verdict).
use crate::c12;
use crate::qv::CV;
use num_bigint::BigInt;
use quiver_compiler::ast::*;
use std::collections::HashMap;
use std::rc::Rc;

#[derive(Clone, Debug)]
pub enum RV {
    Int(BigInt),
    Bin(Rc<Vec<u8>>),
    Tuple(Rc<TupleV>),
    Fn(Rc<FnV>),
    Builtin(String),
}

#[derive(Debug)]
pub struct TupleV { pub name: Option<String>, pub fields: Vec<(Option<String>, RV)> }

pub struct FnV { pub def: Rc<Function>, pub env: Env, pub nilary: bool, pub id: usize, pub maybe_inferred: bool }
impl std::fmt::Debug for FnV { fn fmt(&self, f: &mut std::fmt::Formatter<'_>) -> std::fmt::Result { write!(f, "<fn#{}>", self.id) } }

#[derive(Debug)]
pub enum Ctl {
    /// runtime value-domain error (builtin domain error, ...)
    Error(String),
    /// the program is ill-typed under the spec (field that does not exist, argument outside the declared parameter type, ...):
    /// a compiler that accepts it has a type hole (C01); its value is not defined (C02 does not judge it)
    TypeError(String),
    Unsupported(String),
    Tail(Rc<FnV>, RV),
    Budget,
}

type R<T> = Result<T, Ctl>;

pub fn nil() -> RV { RV::Tuple(Rc::new(TupleV { name: None, fields: vec![] })) }
pub fn ok() -> RV { RV::Tuple(Rc::new(TupleV { name: Some("Ok".into()), fields: vec![] })) }
impl RV {
    pub fn is_nil(&self) -> bool { matches!(self, RV::Tuple(t) if t.name.is_none() && t.fields.is_empty()) }
    pub fn to_cv(&self) -> CV {
        match self {
            RV::Int(i) => CV::Int(i.clone()), RV::Bin(b) => CV::Bin((**b).clone()),
            RV::Tuple(t) => CV::Tuple(t.name.clone(), t.fields.iter().map(|(l, v)| (l.clone(), v.to_cv())).collect()),
            RV::Fn(_) => CV::Builtin("<function>".into()), RV::Builtin(_) => CV::Builtin("<function>".into()),
        }
    }
}

/// functions/builtins compare only as "a function" across evaluators
pub fn normalize_cv(cv: &CV) -> CV {
    match cv {
        CV::Fn(..) | CV::Builtin(_) => CV::Builtin("<function>".into()),
        CV::Tuple(n, fs) => CV::Tuple(n.clone(), fs.iter().map(|(l, v)| (l.clone(), normalize_cv(v))).collect()),
        o => o.clone(),
    }
}

#[derive(Clone)]
pub enum Entry { Val(RV), Alias(Rc<(Vec<String>, Type, Env)>), TyVal(Rc<(Type, Env)>), /** a type variable of a generic function, for the structural argument check only: anything inhabits it */ AnyTy }

#[derive(Clone, Default)]
pub struct Env(Option<Rc<EnvNode>>);
pub struct EnvNode { name: String, entry: Entry, parent: Env }

impl Env {
    pub fn bind(&self, name: &str, entry: Entry) -> Env { Env(Some(Rc::new(EnvNode { name: name.to_string(), entry, parent: self.clone() }))) }
    pub fn get(&self, name: &str) -> Option<&Entry> { let mut cur = &self.0; while let Some(n) = cur { if n.name == name { return Some(&n.entry); } cur = &n.parent.0; } None }
}

pub struct Interp {
    pub budget: u64,
    pub next_fn: usize,
    pub modules: HashMap<String, RV>,
    pub module_sources: HashMap<String, String>,
    pub counters: HashMap<&'static str, u64>,
    loading: Vec<String>,
    in_argument: bool,
}

fn unsup<T>(s: &str) -> R<T> { Err(Ctl::Unsupported(s.to_string())) }

impl Interp {
    pub fn new(module_sources: HashMap<String, String>) -> Interp { Interp { budget: 2_000_000, next_fn: 0, modules: HashMap::new(), module_sources, counters: HashMap::new(), loading: vec![], in_argument: false } }
    fn tick(&mut self) -> R<()> { if self.budget == 0 { return Err(Ctl::Budget); } self.budget -= 1; Ok(()) }
    fn bump(&mut self, k: &'static str) { *self.counters.entry(k).or_insert(0) += 1; }

    pub fn run_program(&mut self, p: &Program) -> R<RV> {
        let mut env = Env::default();
        let mut value = nil();
        for st in &p.statements {
            match st {
                Statement::TypeAlias { name, type_parameters, type_definition, .. } => {
                    let key = format!("'{}", name.clone().unwrap_or_default());
                    env = env.bind(&key, Entry::Alias(Rc::new((type_parameters.clone(), type_definition.clone(), env.clone()))));
                }
                Statement::Expression(seq) => {
                    value = self.eval_sequence(seq, value, &mut env)?;
                    if value.is_nil() { return Ok(value); }
                }
            }
        }
        Ok(value)
    }

    fn eval_sequence(&mut self, seq: &Sequence, input: RV, env: &mut Env) -> R<RV> {
        let mut value = input;
        for chain in &seq.chains {
            value = self.eval_chain(chain, value, env)?;
            if value.is_nil() { self.bump("sequence_short_circuits"); return Ok(value); }
        }
        Ok(value)
    }

    fn eval_chain(&mut self, chain: &Chain, input: RV, env: &mut Env) -> R<RV> {
        self.tick()?;
        let mut flowing = input;
        for (k, term) in chain.terms.iter().enumerate() {
            let followed = k + 1 < chain.terms.len();
            // a tuple followed by another term is a call argument: its top-level untyped function literals may
            // get their parameter type from the callee
            self.in_argument = followed && matches!(term, Term::Tuple(_));
            flowing = self.eval_term(term, flowing, env)?;
            self.in_argument = false;
            if followed && matches!(term, Term::Match(_)) && flowing.is_nil() { self.bump("failed_match_then_more_terms_in_chain"); }
            if let (Term::Function(f), RV::Fn(fv)) = (term, &mut flowing) { if f.parameter_type.is_none() && f.body.is_some() && followed { if let Some(m) = Rc::get_mut(fv) { m.maybe_inferred = true; } } }
        }
        if let Some(pat) = &chain.match_pattern { return self.do_match(pat, &flowing, env); }
        Ok(flowing)
    }

    fn do_match(&mut self, pat: &Match, v: &RV, env: &mut Env) -> R<RV> {
        let mut binds: Vec<(String, RV)> = vec![];
        let okay = self.matches(pat, v, env, &mut binds)?;
        if okay { for (n, val) in binds { *env = env.bind(&n, Entry::Val(val)); } self.bump("matches_succeeded"); Ok(ok()) }
        else {
            // the compiled code defines the pattern's variables as nil on the failure path
            let mut names = vec![]; pattern_names(pat, &mut names);
            for n in names { *env = env.bind(&n, Entry::Val(nil())); }
            self.bump("matches_failed"); Ok(nil())
        }
    }

    fn eval_term(&mut self, term: &Term, flowing: RV, env: &mut Env) -> R<RV> {
        self.tick()?;
        match term {
            Term::Literal(Literal::Integer(i)) => Ok(RV::Int(i.clone())),
            Term::Literal(Literal::Binary(b)) => Ok(RV::Bin(Rc::new(b.clone()))),
            Term::Tuple(t) => self.eval_tuple(t, flowing, env),
            Term::String(_, segs) => {
                let mut out: Vec<u8> = vec![];
                for s in segs {
                    match s {
                        StrSegment::Text(b) => out.extend_from_slice(b),
                        StrSegment::Hole(e) => { let v = self.eval_block(e, flowing.clone(), env)?; match &v { RV::Tuple(t) if t.name.as_deref() == Some("Str") && t.fields.len() == 1 => match &t.fields[0].1 { RV::Bin(b) => out.extend_from_slice(b), _ => return unsup("string hole: Str without binary") }, _ => return unsup("string hole value is not a Str") } }
                    }
                }
                Ok(RV::Tuple(Rc::new(TupleV { name: Some("Str".into()), fields: vec![(None, RV::Bin(Rc::new(out)))] })))
            }
            Term::Match(pat) => self.do_match(pat, &flowing, env),
            Term::Block(e) => self.eval_block(e, flowing, env),
            Term::Function(f) => {
                let nilary = match &f.parameter_type { None => true, Some(Type::Tuple(t)) => t.name.is_none() && t.fields.is_empty() && !t.is_partial, _ => false };
                if f.parameter_type.is_none() && f.body.is_some() { self.bump("untyped_function_literals"); }
                self.next_fn += 1;
                Ok(RV::Fn(Rc::new(FnV { def: Rc::new(f.clone()), env: env.clone(), nilary, id: self.next_fn, maybe_inferred: false })))
            }
            Term::Access(a) => self.eval_access(a, flowing, env, true),
            Term::Reference(a) => self.eval_access(a, flowing, env, false),
            Term::Spawn(..) | Term::Self_ | Term::Select(..) | Term::Process(_) => unsup("process construct"),
        }
    }

    fn eval_block(&mut self, e: &Expression, param: RV, env: &Env) -> R<RV> {
        self.tick()?;
        for br in &e.branches {
            let mut benv = env.clone();
            let c = self.eval_sequence(&br.condition, param.clone(), &mut benv)?;
            if !c.is_nil() {
                return match &br.consequence { Some(cons) => { self.bump("consequences_taken"); self.eval_sequence(cons, param.clone(), &mut benv) } None => Ok(c) };
            }
            self.bump("branches_fallen_through");
        }
        Ok(nil())
    }

    fn eval_tuple(&mut self, t: &Tuple, flowing: RV, env: &mut Env) -> R<RV> {
        // `Inherit` (`a[..., y: 3]`, `~[..., y: 2]`): the name comes from the first spread source
        let spread_default = flowing.clone();
        let name: Option<String> = match &t.name {
            TupleName::Anonymous => None,
            TupleName::Named(n) => Some(n.clone()),
            TupleName::Inherit => {
                let src = t.fields.iter().find_map(|f| if let FieldValue::Spread(s) = &f.value { Some(s.clone()) } else { None });
                let sv = match src { Some(None) | None => flowing.clone(), Some(Some(n)) => match env.get(&n) { Some(Entry::Val(v)) => v.clone(), _ => return unsup("spread of unknown variable") } };
                match &sv { RV::Tuple(ft) => ft.name.clone(), _ => return unsup("name inherited from a non-tuple") }
            }
        };
        let has_spread = t.fields.iter().any(|f| matches!(f.value, FieldValue::Spread(_)));
        if !has_spread {
            let mut fields = vec![];
            let as_arg = self.in_argument; self.in_argument = false;
            for f in &t.fields { if let FieldValue::Chain(c) = &f.value { let mut v = self.eval_chain(c, flowing.clone(), env)?; if as_arg { if let (Some(Term::Function(fd)), RV::Fn(fv)) = (c.terms.last(), &mut v) { if fd.parameter_type.is_none() && fd.body.is_some() { if let Some(m) = Rc::get_mut(fv) { m.maybe_inferred = true; } } } } fields.push((f.name.clone(), v)); } }
            return Ok(RV::Tuple(Rc::new(TupleV { name, fields })));
        }
        self.bump("spreads");
        // spread semantics: later named fields replace earlier ones in place, new ones are appended
        let mut fields: Vec<(Option<String>, RV)> = vec![];
        let put = |fields: &mut Vec<(Option<String>, RV)>, l: Option<String>, v: RV| { if let Some(lbl) = &l { if let Some(slot) = fields.iter_mut().find(|(x, _)| x.as_ref() == Some(lbl)) { slot.1 = v; return; } } fields.push((l, v)); };
        for f in &t.fields {
            match &f.value {
                FieldValue::Chain(c) => { let v = self.eval_chain(c, flowing.clone(), env)?; put(&mut fields, f.name.clone(), v); }
                FieldValue::Spread(src) => {
                    let sv = match src { None => spread_default.clone(), Some(n) => match env.get(n) { Some(Entry::Val(v)) => v.clone(), _ => return unsup("spread of unknown variable") } };
                    match &sv { RV::Tuple(st) => { for (l, v) in &st.fields { put(&mut fields, l.clone(), v.clone()); } } _ => return unsup("spread of a non-tuple") }
                }
            }
        }
        Ok(RV::Tuple(Rc::new(TupleV { name, fields })))
    }

    fn access_path(&mut self, mut v: RV, accessors: &[AccessPath]) -> R<RV> {
        for a in accessors {
            let RV::Tuple(t) = &v else { return Err(Ctl::TypeError("field access on non-tuple".into())) };
            let next = match a { AccessPath::Field(n) => t.fields.iter().find(|(l, _)| l.as_deref() == Some(n.as_str())).map(|x| x.1.clone()), AccessPath::Index(i) => t.fields.get(*i).map(|x| x.1.clone()) };
            v = match next { Some(x) => x, None => return Err(Ctl::TypeError("no such field".into())) };
        }
        Ok(v)
    }

    fn eval_access(&mut self, a: &Access, flowing: RV, env: &mut Env, call: bool) -> R<RV> {
        let base = match &a.source {
            None => { let v = self.access_path(flowing.clone(), &a.accessors)?; if matches!(v, RV::Fn(_) | RV::Builtin(_)) { return unsup("callable field reached by a bare accessor"); } return Ok(v); }
            Some(AccessSource::Identifier(n)) => match env.get(n) { Some(Entry::Val(v)) => v.clone(), _ => return unsup("unbound identifier") },
            Some(AccessSource::Parameter) => match env.get("$") { Some(Entry::Val(v)) => v.clone(), _ => return unsup("$ outside a function") },
            Some(AccessSource::Ripple) => { let v = self.access_path(flowing.clone(), &a.accessors)?; return Ok(v); }
            Some(AccessSource::Import(path)) => self.module(&path.join("/"))?,
            Some(AccessSource::Builtin(n)) => RV::Builtin(n.clone()),
            Some(AccessSource::Self_) => return unsup("&."),
            Some(AccessSource::TailCall(None)) => match env.get("^self") { Some(Entry::Val(RV::Fn(f))) => return Err(Ctl::Tail(f.clone(), flowing)), _ => return unsup("^ outside a function") },
            Some(AccessSource::TailCall(Some(n))) => { let target = match env.get(n) { Some(Entry::Val(v)) => self.access_path(v.clone(), &a.accessors)?, _ => return unsup("^name unbound") }; return match target { RV::Fn(f) => Err(Ctl::Tail(f, flowing)), _ => unsup("^name to a non-function") }; }
            Some(AccessSource::TailCallRipple) => return match flowing { RV::Fn(f) => Err(Ctl::Tail(f, nil())), _ => unsup("^~ on a non-function") },
        };
        let v = self.access_path(base, &a.accessors)?;
        if call && matches!(v, RV::Fn(_) | RV::Builtin(_)) { return self.apply(&v, flowing); }
        Ok(v)
    }

    pub fn apply(&mut self, f: &RV, arg: RV) -> R<RV> {
        self.tick()?;
        match f {
            RV::Builtin(name) => self.builtin(name, arg),
            RV::Fn(fv) => {
                let mut cur = fv.clone();
                let mut a = arg;
                let mut via_tail = false;
                loop {
                    self.tick()?;
                    // `#{ .. }` takes nil — unless its parameter type was inferred from the call context, which
                    // only the type checker knows: a non-nil argument reaching it is outside this evaluator
                    if cur.maybe_inferred && !a.is_nil() { return unsup("untyped function literal applied to a non-nil argument (parameter may be inferred)"); }
                    let param = if cur.nilary { nil() } else { a };
                    // trigger of a recorded finding: a partial parameter type applied to a tuple that carries a named field at
                    // another index than the partial type lists it
                    if let (Some(Type::Tuple(pt)), RV::Tuple(tv)) = (&cur.def.parameter_type, &param) { if pt.is_partial {
                        let mut k = 0; for f in &pt.fields { if let FieldType::Field { name: Some(n), .. } = f { if tv.fields.iter().position(|(l, _)| l.as_deref() == Some(n.as_str())) != Some(k) { self.bump("partial_parameter_with_a_field_at_another_index"); } k += 1; } }
                    } }
                    // the declared parameter type is part of the program: an argument outside it makes the call ill-typed
                    if !cur.def.type_parameters.is_empty() { self.bump("generic_function_applied"); }
                    // (a generic function's type variables are not solved: they are wildcards here, so only the argument's
                    // structure is checked — a "not a member" verdict holds under every instantiation)
                    if let Some(pt) = cur.def.parameter_type.clone() { let mut fenv = cur.env.clone(); for tp in &cur.def.type_parameters { fenv = fenv.bind(&format!("'{}", tp.trim_start_matches('\'')), Entry::AnyTy); } match self.type_member(&param, &pt, &fenv, &mut vec![]) { Ok(true) => {} Ok(false) => { if via_tail { self.bump("tail_call_argument_outside_parameter_type"); } return Err(Ctl::TypeError("argument outside the declared parameter type".into())) }, Err(Ctl::Unsupported(_)) => {} Err(e) => return Err(e) } }
                    let Some(body) = &cur.def.body else { return Ok(param) };
                    let env = cur.env.bind("$", Entry::Val(param.clone())).bind("^self", Entry::Val(RV::Fn(cur.clone())));
                    match self.eval_block(body, param, &env) {
                        Err(Ctl::Tail(g, x)) => { self.bump("tail_calls"); cur = g; a = x; via_tail = true; }
                        other => return other,
                    }
                }
            }
            _ => Err(Ctl::TypeError("apply of a non-callable".into())),
        }
    }

    fn module(&mut self, name: &str) -> R<RV> {
        if let Some(v) = self.modules.get(name) { return Ok(v.clone()); }
        if name == "ref" { return unsup("%ref"); }
        let Some(src) = self.module_sources.get(name).cloned() else { return unsup("unknown module") };
        if self.loading.iter().any(|n| n == name) { return unsup("cyclic module import"); }
        let Ok(ast) = quiver_compiler::parse(&src) else { return unsup("module does not parse") };
        self.loading.push(name.to_string());
        let r = self.run_program(&ast);
        self.loading.pop();
        let v = match r { Ok(v) => v, Err(Ctl::Tail(..)) => return unsup("tail call escaped a module"), Err(e) => return Err(match e { Ctl::Error(m) => Ctl::Unsupported(format!("module {} failed: {}", name, m)), o => o }) };
        self.modules.insert(name.to_string(), v.clone());
        Ok(v)
    }

    fn builtin(&mut self, name: &str, arg: RV) -> R<RV> {
        let Some((bname, sig)) = c12::SIGS.iter().find(|(n, _)| *n == name) else { return unsup("builtin without a model") };
        let to_arg = |v: &RV, ch: char| -> Option<c12::Arg> { match (v, ch) { (RV::Int(i), 'i') => Some(c12::Arg::Int(i.clone())), (RV::Bin(b), 'b') => Some(c12::Arg::Bin((**b).clone(), 0)), _ => None } };
        let args: Vec<c12::Arg> = if sig.len() == 1 { match to_arg(&arg, sig.chars().next().unwrap()) { Some(a) => vec![a], None => return Err(Ctl::TypeError("builtin argument of unexpected kind".into())) } } else {
            let RV::Tuple(t) = &arg else { return Err(Ctl::TypeError("builtin argument is not a tuple".into())) };
            if t.fields.len() != sig.len() { return Err(Ctl::TypeError("builtin arity".into())) }
            let mut v = vec![]; for ((_, f), ch) in t.fields.iter().zip(sig.chars()) { match to_arg(f, ch) { Some(a) => v.push(a), None => return Err(Ctl::TypeError("builtin argument of unexpected kind".into())) } } v };
        let case = c12::Case { name: bname, args, single: sig.len() == 1 };
        let from = |m: &c12::MVal| match m { c12::MVal::Int(i) => RV::Int(i.clone()), c12::MVal::Bin(b) => RV::Bin(Rc::new(b.clone())), c12::MVal::Nil => nil() };
        match c12::model(&case) {
            c12::Expect::Value(m) => Ok(from(&m)),
            c12::Expect::Error => Err(Ctl::Error(format!("{} domain error", name))),
            c12::Expect::OneOf(ms, _) => Ok(from(&ms[0])),
            _ => unsup("builtin call in an undocumented zone"),
        }
    }

    // ------------------------------------------------------------------ patterns

    fn matches(&mut self, pat: &Match, v: &RV, env: &Env, binds: &mut Vec<(String, RV)>) -> R<bool> {
        self.tick()?;
        Ok(match pat {
            Match::Identifier(n, _) => { if let Some((_, prev)) = binds.iter().find(|(b, _)| b == n) { let p = prev.clone(); self.equal(&p, v)? } else { if v.is_nil() { self.bump("nil_bound_by_bare_binder"); } binds.push((n.clone(), v.clone())); true } }
            Match::Placeholder => true,
            Match::Literal(Literal::Integer(i)) => matches!(v, RV::Int(x) if x == i),
            Match::Literal(Literal::Binary(b)) => matches!(v, RV::Bin(x) if **x == *b),
            Match::String(_, bytes) => matches!(v, RV::Tuple(t) if t.name.as_deref() == Some("Str") && t.fields.len() == 1 && matches!(&t.fields[0].1, RV::Bin(x) if **x == *bytes)),
            Match::Reference(n, _) => match env.get(n) { Some(Entry::Val(x)) => { let x = x.clone(); self.equal(&x, v)? } _ => return unsup("pin of unknown variable") },
            Match::Tuple(mt) => {
                let RV::Tuple(t) = v else { return Ok(false) };
                if t.name != mt.name || t.fields.len() != mt.fields.len() { return Ok(false); }
                for (mf, (l, fv)) in mt.fields.iter().zip(t.fields.iter()) { if mf.name != *l { return Ok(false); } if !self.matches(&mf.pattern, fv, env, binds)? { return Ok(false); } }
                true
            }
            Match::Partial(pp) => {
                let RV::Tuple(t) = v else { return Ok(false) };
                if pp.name.is_some() && t.name != pp.name { return Ok(false); }
                for f in &pp.fields {
                    let Some((_, fv)) = t.fields.iter().find(|(l, _)| l.as_deref() == Some(f.name.as_str())) else { return Ok(false) };
                    match &f.pattern { Some(p) => if !self.matches(p, fv, env, binds)? { return Ok(false); }, None => if !self.bind_or_equal(&f.name, fv, binds)? { return Ok(false); } }
                }
                true
            }
            Match::Star(n) => {
                let RV::Tuple(t) = v else { return Ok(false) };
                if n.is_some() && t.name != *n { return Ok(false); }
                for (l, fv) in &t.fields { if let Some(l) = l { if !self.bind_or_equal(l, fv, binds)? { return Ok(false); } } }
                true
            }
            Match::Type(ty) => self.type_member(v, ty, env, &mut vec![])?,
            Match::As(ty, n, _) => { if self.type_member(v, ty, env, &mut vec![])? { binds.push((n.clone(), v.clone())); true } else { false } }
            Match::Or(alts) => { for a in alts { let mut b2 = binds.clone(); if self.matches(a, v, env, &mut b2)? { *binds = b2; return Ok(true); } } false }
        })
    }

    /// a name bound twice in one pattern must see equal values (the rule for repeated identifiers, applied to implicit binders too)
    fn bind_or_equal(&mut self, n: &str, v: &RV, binds: &mut Vec<(String, RV)>) -> R<bool> {
        if let Some((_, prev)) = binds.iter().find(|(b, _)| b == n) { let p = prev.clone(); return self.equal(&p, v); }
        if v.is_nil() { self.bump("nil_bound_by_bare_binder"); }
        binds.push((n.to_string(), v.clone()));
        Ok(true)
    }

    pub fn equal(&mut self, a: &RV, b: &RV) -> R<bool> {
        Ok(match (a, b) {
            (RV::Int(x), RV::Int(y)) => x == y,
            (RV::Bin(x), RV::Bin(y)) => x == y,
            (RV::Tuple(x), RV::Tuple(y)) => { if x.name != y.name || x.fields.len() != y.fields.len() { return Ok(false); } for ((l1, v1), (l2, v2)) in x.fields.iter().zip(y.fields.iter()) { if l1 != l2 || !self.equal(v1, v2)? { return Ok(false); } } true }
            (RV::Fn(_), _) | (_, RV::Fn(_)) | (RV::Builtin(_), _) | (_, RV::Builtin(_)) => return unsup("equality on functions"),
            _ => false,
        })
    }

    fn type_member<'a>(&mut self, v: &RV, ty: &'a Type, env: &Env, stack: &mut Vec<(Type, Env)>) -> R<bool> {
        self.tick()?;
        Ok(match ty {
            Type::Primitive(PrimitiveType::Int) => matches!(v, RV::Int(_)),
            Type::Primitive(PrimitiveType::Bin) => matches!(v, RV::Bin(_)),
            Type::Primitive(PrimitiveType::Ref) => return unsup("'ref type test"),
            Type::Tuple(tt) => {
                if tt.fields.iter().any(|f| matches!(f, FieldType::Spread { .. })) { return unsup("type spread"); }
                if tt.name.as_deref().map(|n| n.starts_with(|c: char| c.is_lowercase())).unwrap_or(false) { return unsup("alias-named tuple type"); }
                let RV::Tuple(t) = v else { return Ok(false) };
                if tt.is_partial {
                    if tt.name.is_some() && t.name != tt.name { return Ok(false); }
                    for f in &tt.fields { if let FieldType::Field { name: Some(n), type_def } = f { let Some((_, fv)) = t.fields.iter().find(|(l, _)| l.as_deref() == Some(n.as_str())) else { return Ok(false) }; if !self.type_member(fv, type_def, env, stack)? { return Ok(false); } } }
                    true
                } else {
                    if t.name != tt.name || t.fields.len() != tt.fields.len() { return Ok(false); }
                    for (f, (l, fv)) in tt.fields.iter().zip(t.fields.iter()) { if let FieldType::Field { name, type_def } = f { if name != l { return Ok(false); } if !self.type_member(fv, type_def, env, stack)? { return Ok(false); } } }
                    true
                }
            }
            Type::Union(u) => { stack.push((ty.clone(), env.clone())); let mut r = false; for m in &u.types { if self.type_member(v, m, env, stack)? { r = true; break; } } stack.pop(); r }
            Type::Cycle(k) => {
                let k = k.unwrap_or(0);
                if k >= stack.len() { return unsup("cycle beyond the enclosing boundaries"); }
                let (target, tenv) = stack[k].clone();
                let saved = stack.split_off(k);
                let r = self.type_member(v, &target, &tenv, stack);
                stack.extend(saved);
                r?
            }
            Type::Identifier { name, arguments } => {
                match env.get(&format!("'{}", name)) {
                    Some(Entry::Alias(a)) => {
                        let a = a.clone();
                        if a.0.len() != arguments.len() { return unsup("generic alias arity"); }
                        let mut aenv = a.2.clone();
                        // an alias may refer to itself only through ^; bind its parameters as type values
                        for (p, arg) in a.0.iter().zip(arguments.iter()) { aenv = aenv.bind(&format!("'{}", p), Entry::TyVal(Rc::new((arg.clone(), env.clone())))); }
                        let mut fresh = vec![];
                        self.type_member(v, &a.1, &aenv, &mut fresh)?
                    }
                    Some(Entry::AnyTy) => true,
                    Some(Entry::TyVal(tv)) => { let tv = tv.clone(); let mut fresh = vec![]; self.type_member(v, &tv.0, &tv.1, &mut fresh)? }
                    _ => return unsup("unknown type name (type variable?)"),
                }
            }
            Type::Intersection(ms) => { for m in ms { if !self.type_member(v, m, env, stack)? { return Ok(false); } } true }
            Type::Function(_) | Type::Process(_) | Type::Resource(_) | Type::ModuleType { .. } | Type::SelfDefault { .. } => return unsup("type test against a function/process/resource/module type"),
        })
    }
}

fn pattern_names(p: &Match, out: &mut Vec<String>) {
    match p {
        Match::Identifier(n, _) | Match::As(_, n, _) => if !out.contains(n) { out.push(n.clone()) },
        Match::Tuple(t) => for f in &t.fields { pattern_names(&f.pattern, out); },
        Match::Partial(pp) => for f in &pp.fields { match &f.pattern { Some(p) => pattern_names(p, out), None => if !out.contains(&f.name) { out.push(f.name.clone()) } } },
        Match::Or(alts) => for a in alts { pattern_names(a, out); },
        _ => {}
    }
}

pub fn std_sources(repo: &str) -> HashMap<String, String> {
    let mut m = HashMap::new();
    if let Ok(rd) = std::fs::read_dir(format!("{}/std", repo)) { for e in rd.flatten() { let p = e.path(); if p.extension().map(|x| x == "qv").unwrap_or(false) { if let Ok(s) = std::fs::read_to_string(&p) { m.insert(p.file_stem().unwrap().to_string_lossy().to_string(), s); } } } }
    m
}

#[derive(Debug)]
pub enum Outcome { Value(CV), Error(String), TypeError(String), Unsupported(String), Budget }

pub fn evaluate(src: &str, modules: &HashMap<String, String>) -> (Outcome, HashMap<&'static str, u64>) {
    let Ok(ast) = quiver_compiler::parse(src) else { return (Outcome::Unsupported("does not parse".into()), HashMap::new()) };
    let mut it = Interp::new(modules.clone());
    let r = it.run_program(&ast);
    let o = match r { Ok(v) => Outcome::Value(v.to_cv()), Err(Ctl::Error(m)) => Outcome::Error(m), Err(Ctl::TypeError(m)) => Outcome::TypeError(m), Err(Ctl::Unsupported(m)) => Outcome::Unsupported(m), Err(Ctl::Budget) => Outcome::Budget, Err(Ctl::Tail(..)) => Outcome::Unsupported("tail call at top level".into()) };
    (o, it.counters)
}
