//! Evidence files, violation / known-finding reporting, exit codes.
use serde_json::{Map, Value as J, json};
use std::collections::{BTreeMap, BTreeSet};
use std::sync::Mutex;
use std::time::Instant;

/// Root for evidence/, replays/, known_findings.json: $VERIF_ROOT (set by ./check to its own
/// directory) or /verif.
pub fn verif_root() -> String { std::env::var("VERIF_ROOT").unwrap_or_else(|_| "/verif".to_string()) }

#[derive(Clone, Debug)]
pub struct Violation {
    /// Specific signature (kind + context) used for matching against known findings.
    pub signature: String,
    /// Human description.
    pub what: String,
    /// Replay contents (witness).
    pub witness: J,
}

pub struct Report {
    pub id: String,
    pub tier: String,
    pub seed: u64,
    start: Instant,
    inner: Mutex<Inner>,
}

#[derive(Default)]
struct Inner {
    evaluations: u64,
    distinct: BTreeSet<u64>,
    inconclusive: u64,
    inconclusive_samples: Vec<J>,
    samples: Vec<J>,
    counters: BTreeMap<String, u64>,
    sets: BTreeMap<String, BTreeSet<u64>>,
    violations: Vec<Violation>,
    extra: Map<String, J>,
    notes: Vec<String>,
}

#[derive(serde::Deserialize, Debug, Clone)]
pub struct KnownFinding {
    pub property: String,
    pub signature: String,
    pub description: String,
}

#[derive(serde::Deserialize, Debug, Clone, Default)]
pub struct FindingsFile {
    #[serde(default)]
    pub findings: Vec<KnownFinding>,
    #[serde(default)]
    pub fixed: Vec<J>,
}

pub fn load_findings() -> FindingsFile {
    let p = format!("{}/known_findings.json", verif_root());
    match std::fs::read_to_string(&p) {
        Ok(s) => serde_json::from_str(&s).unwrap_or_default(),
        Err(_) => FindingsFile::default(),
    }
}

impl Report {
    pub fn new(id: &str, tier: &str, seed: u64) -> Self {
        // stale witnesses of earlier runs of the same (tier, seed) would be confusing
        if let Ok(rd) = std::fs::read_dir(format!("{}/replays/{}", verif_root(), id)) {
            let prefix = format!("{}-{}-", tier, seed);
            for e in rd.flatten() { if e.file_name().to_string_lossy().starts_with(&prefix) { std::fs::remove_file(e.path()).ok(); } }
        }
        Report { id: id.to_string(), tier: tier.to_string(), seed, start: Instant::now(), inner: Mutex::new(Inner::default()) }
    }
    pub fn quick(&self) -> bool { self.tier == "quick" }
    pub fn elapsed(&self) -> f64 { self.start.elapsed().as_secs_f64() }
    pub fn eval(&self, n: u64) { self.inner.lock().unwrap().evaluations += n; }
    /// Record a distinct non-trivial case by hash.
    pub fn distinct(&self, h: u64) { self.inner.lock().unwrap().distinct.insert(h); }
    pub fn count(&self, key: &str, n: u64) { *self.inner.lock().unwrap().counters.entry(key.to_string()).or_insert(0) += n; }
    pub fn set_insert(&self, key: &str, h: u64) { self.inner.lock().unwrap().sets.entry(key.to_string()).or_default().insert(h); }
    /// true while fewer than `n` samples have been recorded
    pub fn want_sample(&self) -> bool { self.inner.lock().unwrap().samples.len() < 4 }
    pub fn sample(&self, s: J) {
        let mut i = self.inner.lock().unwrap();
        if i.samples.len() < 8 { i.samples.push(s); }
    }
    pub fn sample_cap(&self, s: J, cap: usize) {
        let mut i = self.inner.lock().unwrap();
        if i.samples.len() < cap { i.samples.push(s); }
    }
    pub fn inconclusive(&self, why: J) {
        let mut i = self.inner.lock().unwrap();
        i.inconclusive += 1;
        if i.inconclusive_samples.len() < 6 { i.inconclusive_samples.push(why); }
    }
    pub fn note(&self, s: &str) { self.inner.lock().unwrap().notes.push(s.to_string()); }
    pub fn extra(&self, k: &str, v: J) { self.inner.lock().unwrap().extra.insert(k.to_string(), v); }
    pub fn violation(&self, v: Violation) {
        let mut i = self.inner.lock().unwrap();
        // keep at most a few per signature
        let same = i.violations.iter().filter(|x| x.signature == v.signature).count();
        if same < 3 { i.violations.push(v); } else { *i.counters.entry(format!("violation_dups:{}", v.signature)).or_insert(0) += 1; }
    }
    pub fn violation_count(&self) -> usize { self.inner.lock().unwrap().violations.len() }
    pub fn counter(&self, key: &str) -> u64 { *self.inner.lock().unwrap().counters.get(key).unwrap_or(&0) }

    /// Write evidence, print KNOWN-FINDING / VIOLATION lines, return exit code.
    pub fn finish(&self, rule: &str, assumptions: &[&str], expect_situations: &[&str]) -> i32 {
        let i = self.inner.lock().unwrap();
        let findings = load_findings();
        let mut unlisted: Vec<&Violation> = vec![];
        let mut known: BTreeMap<String, (String, usize)> = BTreeMap::new();
        for v in &i.violations {
            if let Some(k) = findings.findings.iter().find(|k| k.property == self.id && k.signature == v.signature) {
                known.entry(k.signature.clone()).or_insert((k.description.clone(), 0)).1 += 1;
            } else {
                unlisted.push(v);
            }
        }
        for (sig, (desc, _n)) in &known {
            println!("KNOWN-FINDING: property={} {} — {}", self.id, sig, desc);
        }
        let mut exit = 0;
        std::fs::create_dir_all(format!("{}/replays/{}", verif_root(), self.id)).ok();
        let mut vio_json = vec![];
        for (n, v) in unlisted.iter().enumerate() {
            let path = format!("{}/replays/{}/{}-{}-{}.json", verif_root(), self.id, self.tier, self.seed, n);
            let body = json!({"property": self.id, "signature": v.signature, "what": v.what, "seed": self.seed, "tier": self.tier, "witness": v.witness});
            std::fs::write(&path, serde_json::to_string_pretty(&body).unwrap()).ok();
            println!("VIOLATION property={} replay={}", self.id, path);
            println!("  signature={} :: {}", v.signature, v.what);
            vio_json.push(json!({"signature": v.signature, "what": v.what, "replay": path}));
            exit = 1;
        }
        let not_observed: Vec<&str> = expect_situations.iter().copied().filter(|s| i.counters.get(*s).copied().unwrap_or(0) == 0).collect();
        let mut cov = Map::new();
        cov.insert("evaluations".into(), json!(i.evaluations));
        cov.insert("distinct_nontrivial".into(), json!(i.distinct.len()));
        cov.insert("rule".into(), json!(rule));
        cov.insert("samples".into(), J::Array(i.samples.clone()));
        cov.insert("situations".into(), json!(i.counters));
        cov.insert("distinct_sets".into(), json!(i.sets.iter().map(|(k, v)| (k.clone(), v.len())).collect::<BTreeMap<_, _>>()));
        cov.insert("not_observed".into(), json!(not_observed));
        cov.insert("inconclusive".into(), json!(i.inconclusive));
        cov.insert("inconclusive_samples".into(), J::Array(i.inconclusive_samples.clone()));
        cov.insert("known_findings_hit".into(), json!(known.iter().map(|(k, v)| (k.clone(), v.1)).collect::<BTreeMap<_, _>>()));
        cov.insert("unlisted_violations".into(), J::Array(vio_json));
        if !i.notes.is_empty() { cov.insert("notes".into(), json!(i.notes)); }
        for (k, v) in &i.extra { cov.insert(k.clone(), v.clone()); }
        let ev = json!({
            "property_id": self.id,
            "tier": self.tier,
            "seed": self.seed,
            "level": "exploration",
            "coverage": J::Object(cov),
            "assumptions": assumptions,
            "wall_s": self.start.elapsed().as_secs_f64(),
            "violations": unlisted.len(),
        });
        std::fs::create_dir_all(format!("{}/evidence", verif_root())).ok();
        let path = format!("{}/evidence/{}.json", verif_root(), self.id);
        std::fs::write(&path, serde_json::to_string_pretty(&ev).unwrap()).expect("write evidence");
        if i.evaluations == 0 || i.distinct.len() < 2 {
            println!("HARNESS-ERROR property={} observed nothing (evaluations={}, distinct={})", self.id, i.evaluations, i.distinct.len());
            return 2;
        }
        println!("{} {} seed={} evaluations={} distinct_nontrivial={} inconclusive={} known={} violations={} wall={:.1}s",
            self.id, self.tier, self.seed, i.evaluations, i.distinct.len(), i.inconclusive, known.len(), unlisted.len(), self.start.elapsed().as_secs_f64());
        exit
    }
}
