//! SplitMix64 — every random choice in the harness derives from VERIF_SEED through this.
#[derive(Clone, Debug)]
pub struct Rng(pub u64);

impl Rng {
    pub fn new(seed: u64) -> Self {
        Rng(seed.wrapping_mul(0x9E3779B97F4A7C15) ^ 0xD1B54A32D192ED03)
    }
    /// Independent stream for (seed, property tag, shard, index).
    pub fn derive(seed: u64, tag: &str, a: u64, b: u64) -> Self {
        let mut h: u64 = 0xcbf29ce484222325;
        for byte in tag.bytes() {
            h ^= byte as u64;
            h = h.wrapping_mul(0x100000001b3);
        }
        let mut r = Rng(seed ^ h.rotate_left(17) ^ a.wrapping_mul(0xA24BAED4963EE407) ^ b.wrapping_mul(0x9FB21C651E98DF25));
        r.next();
        r.next();
        r
    }
    pub fn next(&mut self) -> u64 {
        self.0 = self.0.wrapping_add(0x9E3779B97F4A7C15);
        let mut z = self.0;
        z = (z ^ (z >> 30)).wrapping_mul(0xBF58476D1CE4E5B9);
        z = (z ^ (z >> 27)).wrapping_mul(0x94D049BB133111EB);
        z ^ (z >> 31)
    }
    pub fn below(&mut self, n: usize) -> usize {
        if n == 0 { 0 } else { (self.next() % n as u64) as usize }
    }
    pub fn range(&mut self, lo: i64, hi: i64) -> i64 {
        lo + (self.next() % ((hi - lo + 1) as u64)) as i64
    }
    pub fn chance(&mut self, num: u64, den: u64) -> bool {
        self.next() % den < num
    }
    pub fn pick<'a, T>(&mut self, xs: &'a [T]) -> &'a T {
        &xs[self.below(xs.len())]
    }
    pub fn shuffle<T>(&mut self, xs: &mut [T]) {
        for i in (1..xs.len()).rev() {
            let j = self.below(i + 1);
            xs.swap(i, j);
        }
    }
    pub fn bytes(&mut self, n: usize) -> Vec<u8> {
        (0..n).map(|_| self.next() as u8).collect()
    }
}

pub fn fnv64(data: &[u8]) -> u64 {
    let mut h: u64 = 0xcbf29ce484222325;
    for b in data {
        h ^= *b as u64;
        h = h.wrapping_mul(0x100000001b3);
    }
    h
}
