//! Scenario DSL for process systems: a tree of processes, each a straight-line list of actions.
//! Every term has (a) an emitter to Quiver source and (b) an executable reference semantics.
//!
//! Messages are `I[from, seq, payload:int]` or `B[from, seq, payload:bin]`, so every send is
//! unique and a received value identifies the send it observed.
use crate::qv::CV;
use crate::rng::Rng;
use num_bigint::BigInt;
use std::collections::{BTreeMap, VecDeque};

pub type NodeId = usize;

#[derive(Clone, Debug, PartialEq)]
pub enum Ex {
    Lit(i64),
    Var(String),
    Bin(Vec<u8>),
    Add(Box<Ex>, Box<Ex>),
    Sub(Box<Ex>, Box<Ex>),
    Mul(Box<Ex>, Box<Ex>),
    /// payload of a received message variable (kind known)
    Payload(String),
    Seq(String),
    Concat(Box<Ex>, Box<Ex>),
    Len(Box<Ex>),
    Tup(Vec<Ex>),
}

#[derive(Clone, Copy, Debug, PartialEq, Eq, PartialOrd, Ord)]
pub enum Kind {
    I,
    B,
}

#[derive(Clone, Debug, PartialEq)]
pub enum RecvSel {
    Any,
    Only(Kind),
    /// filter on an I message: payload == k  (pure)
    PayloadEq(i64),
    /// filter on an I message identity: from == f && seq == s
    Ident(i64, i64),
    /// filter on I message: seq >= k
    SeqGe(i64),
}

#[derive(Clone, Copy, Debug, PartialEq, Eq)]
pub enum FailKind {
    DivZero,
    ModZero,
    BadSlice,
    SqrtNeg,
    /// send inside a receive filter (needs a message of kind I in the mailbox to trigger)
    SendInFilter,
    SpawnInFilter,
}

#[derive(Clone, Copy, Debug, PartialEq, Eq)]
pub enum Target {
    Parent,
    Child(NodeId),
}

#[derive(Clone, Debug, PartialEq)]
pub enum Action {
    Let(String, Ex),
    Spawn { child: NodeId, arg: Ex },
    Send { to: Target, kind: Kind, payload: Ex },
    Recv { var: String, sel: RecvSel },
    /// tail-recursive loop receiving `count` I-messages and summing payloads
    RecvSum { var: String, count: usize },
    Await { var: String, child: NodeId },
    Fail(FailKind),
}

#[derive(Clone, Debug)]
pub struct Node {
    pub id: NodeId,
    pub parent: Option<NodeId>,
    pub body: Vec<Action>,
    pub ret: Ex,
    /// Some(k): this node's whole function is a tail-recursive loop receiving k I-messages and
    /// summing their payloads (its body is exactly [RecvSum]).
    pub sum_loop: Option<usize>,
}

#[derive(Clone, Debug)]
pub struct Scenario {
    pub nodes: Vec<Node>, // node 0 is the root
}

// ---------------------------------------------------------------------------------------------
// Model values

#[derive(Clone, Debug, PartialEq)]
pub enum MV {
    Int(BigInt),
    Bin(Vec<u8>),
    Msg { kind: Kind, from: i64, seq: i64, payload: Box<MV> },
    Tup(Vec<MV>),
    Proc(NodeId),
}

impl MV {
    pub fn int(i: i64) -> MV { MV::Int(BigInt::from(i)) }
    pub fn to_cv(&self, names: &BTreeMap<NodeId, String>) -> CV {
        match self {
            MV::Int(i) => CV::Int(i.clone()),
            MV::Bin(b) => CV::Bin(b.clone()),
            MV::Msg { kind, from, seq, payload } => CV::Tuple(
                Some(match kind { Kind::I => "I".into(), Kind::B => "B".into() }),
                vec![(None, CV::int(*from)), (None, CV::int(*seq)), (None, payload.to_cv(names))],
            ),
            MV::Tup(fs) => CV::Tuple(None, fs.iter().map(|f| (None, f.to_cv(names))).collect()),
            MV::Proc(n) => CV::Builtin(format!("@{}", names.get(n).cloned().unwrap_or_default())),
        }
    }
}

#[derive(Clone, Debug, PartialEq)]
pub enum ModelFate {
    Done(MV),
    /// failed at its own Fail action (origin) or by awaiting a failed node (origin = that chain's origin)
    Failed { origin: NodeId, kind: FailKind },
    /// blocked forever (a sender failed / never sends)
    Blocked,
    /// never spawned (its parent failed or blocked before the spawn)
    NeverSpawned,
}

// ---------------------------------------------------------------------------------------------
// Emission

fn hexlit(b: &[u8]) -> String {
    format!("0x{}", b.iter().map(|x| format!("{:02x}", x)).collect::<String>())
}

pub fn emit_ex(e: &Ex) -> String {
    match e {
        Ex::Lit(i) => format!("{}", i),
        Ex::Var(v) => v.clone(),
        Ex::Bin(b) => hexlit(b),
        Ex::Add(a, b) => format!("[{}, {}] __integer_add__", emit_ex(a), emit_ex(b)),
        Ex::Sub(a, b) => format!("[{}, {}] __integer_subtract__", emit_ex(a), emit_ex(b)),
        Ex::Mul(a, b) => format!("[{}, {}] __integer_multiply__", emit_ex(a), emit_ex(b)),
        Ex::Payload(v) => format!("{}.2", v),
        Ex::Seq(v) => format!("{}.1", v),
        Ex::Concat(a, b) => format!("[{}, {}] __binary_concat__", emit_ex(a), emit_ex(b)),
        Ex::Len(a) => format!("{} __binary_length__", emit_ex(a)),
        Ex::Tup(fs) => format!("[{}]", fs.iter().map(emit_ex).collect::<Vec<_>>().join(", ")),
    }
}

pub const PRELUDE: &str = "'mi = I['int, 'int, 'int]\n'mb = B['int, 'int, 'bin]\n'msg = 'mi | 'mb\n";

impl Scenario {
    pub fn children_of(&self, n: NodeId) -> Vec<NodeId> {
        self.nodes[n].body.iter().filter_map(|a| if let Action::Spawn { child, .. } = a { Some(*child) } else { None }).collect()
    }

    /// Logical names by static spawn order.
    pub fn names(&self) -> BTreeMap<NodeId, String> {
        let mut m = BTreeMap::new();
        m.insert(0, "r".to_string());
        let mut stack = vec![0];
        while let Some(n) = stack.pop() {
            let pn = m[&n].clone();
            for (k, c) in self.children_of(n).into_iter().enumerate() {
                m.insert(c, format!("{}/{}", pn, k));
                stack.push(c);
            }
        }
        m
    }

    fn emit_node_body(&self, n: NodeId, indent: usize, out: &mut String) {
        let pad = "  ".repeat(indent);
        let node = &self.nodes[n];
        let mut steps: Vec<String> = vec![];
        steps.push(format!("me{} = &.", n));
        if n != 0 { steps.push(format!("a{} = $", n)); }
        let mut seq = 0i64;
        for act in &node.body {
            match act {
                Action::Let(v, e) => steps.push(format!("{} = {}", v, emit_ex(e))),
                Action::Spawn { child, arg } => {
                    if let Some(k) = self.nodes[*child].sum_loop {
                        steps.push(format!("f{} = #['int, 'int] {{\n{pad}  | =[acc, 0] => acc\n{pad}  | =[acc, n] => {{ m = !'mi, [[acc, m.2] __integer_add__, [n, 1] __integer_subtract__] ^ }}\n{pad}}}", child, pad = pad));
                        steps.push(format!("c{} = [0, {}] @f{}", child, k, child));
                    } else {
                        let mut body = String::new();
                        self.emit_node_body(*child, indent + 1, &mut body);
                        steps.push(format!("f{} = #'int {{\n{}{}}}", child, body, pad));
                        steps.push(format!("c{} = {} @f{}", child, emit_ex(arg), child));
                    }
                }
                Action::Send { to, kind, payload } => {
                    let t = match to { Target::Parent => format!("me{}", node.parent.unwrap()), Target::Child(c) => format!("c{}", c) };
                    let k = match kind { Kind::I => "I", Kind::B => "B" };
                    steps.push(format!("{}[{}, {}, {}] {}", k, n, seq, emit_ex(payload), t));
                    seq += 1;
                }
                Action::Recv { var, sel } => {
                    let s = match sel {
                        RecvSel::Any => "!'msg".to_string(),
                        RecvSel::Only(Kind::I) => "!'mi".to_string(),
                        RecvSel::Only(Kind::B) => "!'mb".to_string(),
                        RecvSel::PayloadEq(k) => format!("! [#'mi {{ $.2 ={} }}]", k),
                        RecvSel::Ident(f, s) => format!("! [#'mi {{ $.0 ={}, $.1 ={} }}]", f, s),
                        RecvSel::SeqGe(k) => format!("! [#'mi {{ [$.1, {}] __integer_compare__ {{ =-1 => [] | Ok }} }}]", k),
                    };
                    steps.push(format!("{} = {}", var, s));
                }
                Action::RecvSum { .. } => unreachable!("RecvSum is only emitted as a sum_loop node"),
                Action::Await { var, child } => steps.push(format!("{} = !c{}", var, child)),
                Action::Fail(k) => steps.push(match k {
                    FailKind::DivZero => "zz = [1, 0] __integer_divide__".to_string(),
                    FailKind::ModZero => "zz = [1, 0] __integer_modulo__".to_string(),
                    FailKind::BadSlice => "zz = [0x0102, 5, 9] __binary_slice__".to_string(),
                    FailKind::SqrtNeg => "zz = -4 __integer_sqrt__".to_string(),
                    FailKind::SendInFilter => format!("zz = ! [#'mi {{ I[0, 0, 0] me{} }}]", n),
                    FailKind::SpawnInFilter => "zz = ! [#'mi { @#{ 1 } }]".to_string(),
                }),
            }
        }
        steps.push(emit_ex(&node.ret));
        for (i, s) in steps.iter().enumerate() {
            out.push_str(&pad);
            out.push_str(s);
            if i + 1 < steps.len() { out.push(','); }
            out.push('\n');
        }
    }

    pub fn emit(&self) -> String {
        let mut body = String::new();
        self.emit_node_body(0, 1, &mut body);
        format!("{}main = #{{\n{}}},\nmain\n", PRELUDE, body)
    }
}

// ---------------------------------------------------------------------------------------------
// Reference semantics (run-to-block, any order: the scenarios are built so that the outcome
// is order independent where the caller needs that)

struct NState {
    pc: usize,
    env: BTreeMap<String, MV>,
    mailbox: VecDeque<MV>,
    fate: Option<ModelFate>,
    spawned: bool,
    sent: i64,
    /// progress inside RecvSum
    sum_left: Option<(usize, BigInt)>,
}

pub struct ModelResult {
    pub fates: BTreeMap<NodeId, ModelFate>,
    /// leftover mailbox per node at the end
    pub mailboxes: BTreeMap<NodeId, Vec<MV>>,
    /// messages actually sent, per (receiver): (kind, from, seq, payload)
    pub sent: BTreeMap<NodeId, Vec<MV>>,
    /// messages received per node in Recv order (only from Recv actions)
    pub received: BTreeMap<NodeId, Vec<MV>>,
}

fn eval(e: &Ex, env: &BTreeMap<String, MV>) -> MV {
    let int = |x: &Ex| match eval(x, env) { MV::Int(i) => i, other => panic!("model: expected int, got {:?}", other) };
    let bin = |x: &Ex| match eval(x, env) { MV::Bin(b) => b, other => panic!("model: expected bin, got {:?}", other) };
    match e {
        Ex::Lit(i) => MV::int(*i),
        Ex::Var(v) => env.get(v).cloned().unwrap_or_else(|| panic!("model: unbound {}", v)),
        Ex::Bin(b) => MV::Bin(b.clone()),
        Ex::Add(a, b) => MV::Int(int(a) + int(b)),
        Ex::Sub(a, b) => MV::Int(int(a) - int(b)),
        Ex::Mul(a, b) => MV::Int(int(a) * int(b)),
        Ex::Payload(v) => match env.get(v) { Some(MV::Msg { payload, .. }) => (**payload).clone(), o => panic!("model: payload of {:?}", o) },
        Ex::Seq(v) => match env.get(v) { Some(MV::Msg { seq, .. }) => MV::int(*seq), o => panic!("model: seq of {:?}", o) },
        Ex::Concat(a, b) => { let mut x = bin(a); x.extend(bin(b)); MV::Bin(x) }
        Ex::Len(a) => MV::int(bin(a).len() as i64),
        Ex::Tup(fs) => MV::Tup(fs.iter().map(|f| eval(f, env)).collect()),
    }
}

pub fn sel_accepts(sel: &RecvSel, m: &MV) -> bool {
    let MV::Msg { kind, from, seq, payload } = m else { return false };
    match sel {
        RecvSel::Any => true,
        RecvSel::Only(k) => kind == k,
        RecvSel::PayloadEq(k) => *kind == Kind::I && **payload == MV::int(*k),
        RecvSel::Ident(f, s) => *kind == Kind::I && from == f && seq == s,
        RecvSel::SeqGe(k) => *kind == Kind::I && seq >= k,
    }
}

pub fn run_model(sc: &Scenario) -> ModelResult {
    let n = sc.nodes.len();
    let mut st: Vec<NState> = (0..n).map(|_| NState { pc: 0, env: BTreeMap::new(), mailbox: VecDeque::new(), fate: None, spawned: false, sent: 0, sum_left: None }).collect();
    st[0].spawned = true;
    let mut sent: BTreeMap<NodeId, Vec<MV>> = BTreeMap::new();
    let mut received: BTreeMap<NodeId, Vec<MV>> = BTreeMap::new();
    loop {
        let mut progress = false;
        for i in 0..n {
            if !st[i].spawned || st[i].fate.is_some() { continue; }
            loop {
                let node = &sc.nodes[i];
                if st[i].pc >= node.body.len() {
                    let v = eval(&node.ret, &st[i].env);
                    st[i].fate = Some(ModelFate::Done(v));
                    progress = true;
                    break;
                }
                let act = node.body[st[i].pc].clone();
                match act {
                    Action::Let(v, e) => { let x = eval(&e, &st[i].env); st[i].env.insert(v, x); }
                    Action::Spawn { child, arg } => {
                        let a = eval(&arg, &st[i].env);
                        st[child].spawned = true;
                        st[child].env.insert(format!("a{}", child), a);
                        st[i].env.insert(format!("c{}", child), MV::Proc(child));
                    }
                    Action::Send { to, kind, payload } => {
                        let p = eval(&payload, &st[i].env);
                        let seq = st[i].sent;
                        st[i].sent += 1;
                        let target = match to { Target::Parent => node.parent.unwrap(), Target::Child(c) => c };
                        let m = MV::Msg { kind, from: i as i64, seq, payload: Box::new(p) };
                        sent.entry(target).or_default().push(m.clone());
                        // a message to a finished/failed process is still appended to its mailbox
                        st[target].mailbox.push_back(m);
                    }
                    Action::Recv { var, sel } => {
                        match st[i].mailbox.iter().position(|m| sel_accepts(&sel, m)) {
                            Some(ix) => { let m = st[i].mailbox.remove(ix).unwrap(); received.entry(i).or_default().push(m.clone()); st[i].env.insert(var, m); }
                            None => break,
                        }
                    }
                    Action::RecvSum { var, count } => {
                        let (mut left, mut acc) = st[i].sum_left.take().unwrap_or((count, BigInt::from(0)));
                        let mut blocked = false;
                        while left > 0 {
                            match st[i].mailbox.iter().position(|m| sel_accepts(&RecvSel::Only(Kind::I), m)) {
                                Some(ix) => {
                                    let m = st[i].mailbox.remove(ix).unwrap();
                                    received.entry(i).or_default().push(m.clone());
                                    if let MV::Msg { payload, .. } = &m { if let MV::Int(p) = &**payload { acc += p; } }
                                    left -= 1;
                                    progress = true;
                                }
                                None => { blocked = true; break; }
                            }
                        }
                        if blocked { st[i].sum_left = Some((left, acc)); break; }
                        st[i].env.insert(var, MV::Int(acc));
                    }
                    Action::Await { var, child } => {
                        match st[child].fate.clone() {
                            Some(ModelFate::Done(v)) => { st[i].env.insert(var, v); }
                            Some(ModelFate::Failed { origin, kind }) => { st[i].fate = Some(ModelFate::Failed { origin, kind }); progress = true; break; }
                            _ => break,
                        }
                    }
                    Action::Fail(k) => {
                        match k {
                            FailKind::SendInFilter | FailKind::SpawnInFilter => {
                                // only triggers once an I message is in the mailbox
                                if !st[i].mailbox.iter().any(|m| sel_accepts(&RecvSel::Only(Kind::I), m)) { break; }
                            }
                            _ => {}
                        }
                        st[i].fate = Some(ModelFate::Failed { origin: i, kind: k });
                        progress = true;
                        break;
                    }
                }
                st[i].pc += 1;
                progress = true;
            }
        }
        if !progress { break; }
    }
    let mut fates = BTreeMap::new();
    let mut mailboxes = BTreeMap::new();
    for i in 0..n {
        let f = if !st[i].spawned { ModelFate::NeverSpawned } else { st[i].fate.clone().unwrap_or(ModelFate::Blocked) };
        fates.insert(i, f);
        mailboxes.insert(i, st[i].mailbox.iter().cloned().collect());
    }
    ModelResult { fates, mailboxes, sent, received }
}

// ---------------------------------------------------------------------------------------------
// Generator

#[derive(Clone, Debug)]
pub struct GenCfg {
    pub max_nodes: usize,
    pub max_depth: usize,
    /// single sender per mailbox, deterministic outcome
    pub confluent: bool,
    /// probability (per mille) of inserting a Fail action in a node
    pub fail_permille: u64,
    pub binaries: bool,
}

#[derive(Clone, Copy, Debug, PartialEq)]
enum VK {
    Int,
    Bin,
    MsgI,
    MsgB,
    Opaque,
}

/// How a node consumes its mailbox (see DESIGN §2.4: modes keep enabledness monotone so that
/// completion does not depend on the schedule).
#[derive(Clone, Copy, Debug, PartialEq)]
enum RecvMode {
    None,
    AllAny,
    ByKind,
    ByIdent,
    Sum,
}

struct Plan {
    parent: Option<NodeId>,
    depth: usize,
    children: Vec<NodeId>,
    mode: RecvMode,
    /// nodes allowed to send to this node
    senders: Vec<NodeId>,
}

fn rbytes(rng: &mut Rng, lo: usize, hi: usize) -> Vec<u8> {
    let n = lo + rng.below(hi - lo + 1);
    rng.bytes(n)
}

pub fn generate(rng: &mut Rng, cfg: &GenCfg) -> Scenario {
    // 1. tree shape
    let total = 2 + rng.below(cfg.max_nodes.max(2) - 1);
    let mut plans: Vec<Plan> = vec![Plan { parent: None, depth: 0, children: vec![], mode: RecvMode::None, senders: vec![] }];
    while plans.len() < total {
        let cands: Vec<usize> = (0..plans.len()).filter(|&i| plans[i].depth < cfg.max_depth).collect();
        if cands.is_empty() { break; }
        // bias towards storms: sometimes keep adding to the same parent
        let p = if rng.chance(1, 3) { *cands.last().unwrap() } else { *rng.pick(&cands) };
        let id = plans.len();
        let d = plans[p].depth + 1;
        plans[p].children.push(id);
        plans.push(Plan { parent: Some(p), depth: d, children: vec![], mode: RecvMode::None, senders: vec![] });
    }
    let n = plans.len();
    // 2. receive modes and senders
    for i in 0..n {
        let mut neighbours: Vec<NodeId> = plans[i].children.clone();
        if let Some(p) = plans[i].parent { neighbours.push(p); }
        if neighbours.is_empty() || rng.chance(1, 4) { continue; }
        plans[i].mode = match rng.below(8) { 0..=2 => RecvMode::AllAny, 3 | 4 => RecvMode::ByKind, 5 | 6 => RecvMode::ByIdent, _ => RecvMode::Sum };
        if plans[i].mode == RecvMode::Sum {
            // a sum loop is a leaf fed by its parent only
            if plans[i].children.is_empty() && plans[i].parent.is_some() { plans[i].senders = vec![plans[i].parent.unwrap()]; continue; }
            plans[i].mode = RecvMode::AllAny;
        }
        if cfg.confluent {
            plans[i].senders = vec![*rng.pick(&neighbours)];
        } else {
            rng.shuffle(&mut neighbours);
            let k = 1 + rng.below(neighbours.len());
            plans[i].senders = neighbours[..k].to_vec();
        }
    }
    // 3. per node: number of messages each sender sends to each target
    // sends[s] = list of (target, kind, count)
    let mut inbound: BTreeMap<NodeId, Vec<(NodeId, Kind)>> = BTreeMap::new(); // target -> list of (sender, kind) in no particular order
    for t in 0..n {
        for &s in &plans[t].senders.clone() {
            let cnt = 1 + rng.below(3);
            for _ in 0..cnt {
                let kind = match plans[t].mode {
                    RecvMode::Sum | RecvMode::ByIdent => Kind::I,
                    _ => if cfg.binaries && rng.chance(1, 3) { Kind::B } else { Kind::I },
                };
                inbound.entry(t).or_default().push((s, kind));
            }
        }
    }
    // 4. build bodies. Each node: [lets] spawn children (interleaved), sends, recvs, awaits, in a
    //    randomised but dependency-respecting order; the model then rejects deadlocking scenarios.
    let mut nodes: Vec<Node> = (0..n).map(|i| Node { id: i, parent: plans[i].parent, body: vec![], ret: Ex::Lit(0), sum_loop: None }).collect();
    // outgoing per sender
    let mut outgoing: BTreeMap<NodeId, Vec<(NodeId, Kind)>> = BTreeMap::new();
    for (t, v) in &inbound { for (s, k) in v { outgoing.entry(*s).or_default().push((*t, *k)); } }
    // static seq numbers are assigned by emission order of Send actions in the sender's body; for
    // ByIdent receivers we need to know (from, seq) — so fix each sender's send order now.
    for v in outgoing.values_mut() { rng.shuffle(v); }
    let mut ident_of: BTreeMap<NodeId, Vec<(i64, i64)>> = BTreeMap::new(); // target -> identities it will be sent
    for (s, v) in &outgoing {
        for (seq, (t, _k)) in v.iter().enumerate() { ident_of.entry(*t).or_default().push((*s as i64, seq as i64)); }
    }
    for i in 0..n {
        if plans[i].mode == RecvMode::Sum {
            let m = inbound.get(&i).map(|v| v.len()).unwrap_or(0);
            let v = format!("s{}", i);
            nodes[i].sum_loop = Some(m);
            nodes[i].body = vec![Action::RecvSum { var: v.clone(), count: m }];
            nodes[i].ret = Ex::Var(v);
            continue;
        }
        let mut vars: Vec<(String, VK)> = vec![];
        if i != 0 { vars.push((format!("a{}", i), VK::Int)); }
        let mut vc = 0usize;
        let mut fresh = |p: &str| { vc += 1; format!("{}{}_{}", p, i, vc) };
        // work items
        #[derive(Clone, Debug)]
        enum W { Spawn(NodeId), Send(usize), Recv(usize), Await(NodeId), Let, Fail }
        let my_out = outgoing.get(&i).cloned().unwrap_or_default();
        let my_in = inbound.get(&i).cloned().unwrap_or_default();
        // how many messages will this node try to receive
        let want = match plans[i].mode {
            RecvMode::None => 0,
            _ => { let m = my_in.len(); if m == 0 { 0 } else if rng.chance(1, 4) { m.saturating_sub(1).max(1) } else { m } }
        };
        let mut items: Vec<W> = vec![];
        for &c in &plans[i].children { items.push(W::Spawn(c)); }
        for k in 0..my_out.len() { items.push(W::Send(k)); }
        let nrecv_items = if plans[i].mode == RecvMode::Sum { if want > 0 { 1 } else { 0 } } else { want };
        for k in 0..nrecv_items { items.push(W::Recv(k)); }
        for &c in &plans[i].children { if rng.chance(4, 5) { items.push(W::Await(c)); } }
        for _ in 0..rng.below(3) { items.push(W::Let); }
        if cfg.fail_permille > 0 && rng.chance(cfg.fail_permille, 1000) { items.push(W::Fail); }
        // random topological order: Send(k) keeps relative order (seq), Send/Await to child after its Spawn
        let mut order: Vec<W> = vec![];
        let mut remaining = items;
        let mut spawned: Vec<NodeId> = vec![];
        let mut next_send = 0usize;
        let mut next_recv = 0usize;
        while !remaining.is_empty() {
            let ready: Vec<usize> = (0..remaining.len()).filter(|&ix| match &remaining[ix] {
                W::Spawn(_) | W::Let | W::Fail => true,
                W::Send(k) => *k == next_send && match my_out[*k].0 { t if Some(t) == plans[i].parent => true, t => spawned.contains(&t) },
                W::Recv(k) => *k == next_recv,
                W::Await(c) => spawned.contains(c),
            }).collect();
            if ready.is_empty() { break; }
            // bias: producing actions (spawn/send/let) tend to come before blocking ones, which
            // keeps most scenarios deadlock-free while still mixing orders
            let weighted: Vec<usize> = ready.iter().flat_map(|&ix| {
                let w = match &remaining[ix] { W::Spawn(_) | W::Send(_) => 5, W::Let | W::Fail => 2, W::Recv(_) | W::Await(_) => 1 };
                std::iter::repeat(ix).take(w)
            }).collect();
            let ix = *rng.pick(&weighted);
            let w = remaining.remove(ix);
            match &w { W::Spawn(c) => spawned.push(*c), W::Send(_) => next_send += 1, W::Recv(_) => next_recv += 1, _ => {} }
            order.push(w);
        }
        // choose ident receive order (a permutation → reorders the mailbox deterministically)
        let mut idents = ident_of.get(&i).cloned().unwrap_or_default();
        rng.shuffle(&mut idents);
        // by-kind plan: count kinds available
        let mut kinds_avail: Vec<Kind> = my_in.iter().map(|(_, k)| *k).collect();
        rng.shuffle(&mut kinds_avail);
        let int_vars = |vars: &Vec<(String, VK)>| vars.iter().filter(|(_, k)| *k == VK::Int).map(|(v, _)| v.clone()).collect::<Vec<_>>();
        let mut body = vec![];
        for w in order {
            match w {
                W::Spawn(c) => {
                    let iv = int_vars(&vars);
                    let arg = if !iv.is_empty() && rng.chance(1, 2) { Ex::Add(Box::new(Ex::Var(rng.pick(&iv).clone())), Box::new(Ex::Lit(rng.range(0, 9)))) } else { Ex::Lit(rng.range(-5, 50)) };
                    body.push(Action::Spawn { child: c, arg });
                }
                W::Send(k) => {
                    let (t, kind) = my_out[k];
                    let to = if Some(t) == plans[i].parent { Target::Parent } else { Target::Child(t) };
                    let payload = match kind {
                        Kind::I => {
                            let iv = int_vars(&vars);
                            if cfg.confluent && !iv.is_empty() && rng.chance(1, 2) { Ex::Add(Box::new(Ex::Var(rng.pick(&iv).clone())), Box::new(Ex::Lit(k as i64))) }
                            else { Ex::Lit((i as i64) * 1000 + k as i64) }
                        }
                        Kind::B => {
                            let bv: Vec<String> = vars.iter().filter(|(_, k)| *k == VK::Bin).map(|(v, _)| v.clone()).collect();
                            let lit = Ex::Bin(vec![i as u8, k as u8, rng.next() as u8]);
                            if cfg.confluent && !bv.is_empty() && rng.chance(1, 2) { Ex::Concat(Box::new(Ex::Var(rng.pick(&bv).clone())), Box::new(lit)) }
                            else { Ex::Concat(Box::new(lit), Box::new(Ex::Bin(rbytes(rng, 0, 3)))) }
                        }
                    };
                    body.push(Action::Send { to, kind, payload });
                }
                W::Recv(k) => {
                    match plans[i].mode {
                        RecvMode::Sum => {
                            let v = fresh("s");
                            // only I messages are ever sent to a Sum node
                            body.push(Action::RecvSum { var: v.clone(), count: want });
                            vars.push((v, VK::Int));
                        }
                        RecvMode::AllAny => { let v = fresh("m"); body.push(Action::Recv { var: v.clone(), sel: RecvSel::Any }); vars.push((v, VK::Opaque)); }
                        RecvMode::ByKind => {
                            let kind = kinds_avail[k];
                            let v = fresh("m");
                            body.push(Action::Recv { var: v.clone(), sel: RecvSel::Only(kind) });
                            vars.push((v, if kind == Kind::I { VK::MsgI } else { VK::MsgB }));
                        }
                        RecvMode::ByIdent => {
                            let (f, s) = idents[k];
                            let v = fresh("m");
                            body.push(Action::Recv { var: v.clone(), sel: RecvSel::Ident(f, s) });
                            vars.push((v, VK::MsgI));
                        }
                        RecvMode::None => {}
                    }
                }
                W::Await(c) => { let v = fresh("r"); body.push(Action::Await { var: v.clone(), child: c }); vars.push((v, VK::Opaque)); }
                W::Let => {
                    let iv = int_vars(&vars);
                    let mv: Vec<(String, VK)> = vars.iter().filter(|(_, k)| matches!(k, VK::MsgI | VK::MsgB)).cloned().collect();
                    let v = fresh("v");
                    if cfg.confluent && !mv.is_empty() && rng.chance(1, 2) {
                        let (m, k) = rng.pick(&mv).clone();
                        if k == VK::MsgI { body.push(Action::Let(v.clone(), Ex::Mul(Box::new(Ex::Payload(m)), Box::new(Ex::Lit(rng.range(1, 4)))))); vars.push((v, VK::Int)); }
                        else { body.push(Action::Let(v.clone(), Ex::Concat(Box::new(Ex::Payload(m)), Box::new(Ex::Bin(rng.bytes(2)))))); vars.push((v, VK::Bin)); }
                    } else if !iv.is_empty() {
                        let a = Ex::Var(rng.pick(&iv).clone());
                        let e = match rng.below(3) { 0 => Ex::Add(Box::new(a), Box::new(Ex::Lit(rng.range(0, 100)))), 1 => Ex::Mul(Box::new(a), Box::new(Ex::Lit(rng.range(-3, 7)))), _ => Ex::Sub(Box::new(Ex::Lit(rng.range(0, 100))), Box::new(a)) };
                        body.push(Action::Let(v.clone(), e)); vars.push((v, VK::Int));
                    } else if cfg.binaries {
                        body.push(Action::Let(v.clone(), Ex::Concat(Box::new(Ex::Bin(rbytes(rng, 1, 3))), Box::new(Ex::Bin(rbytes(rng, 0, 2)))))); vars.push((v, VK::Bin));
                    } else {
                        body.push(Action::Let(v.clone(), Ex::Lit(rng.range(0, 1000)))); vars.push((v, VK::Int));
                    }
                }
                W::Fail => {
                    let k = match rng.below(6) { 0 => FailKind::DivZero, 1 => FailKind::ModZero, 2 => FailKind::BadSlice, 3 => FailKind::SqrtNeg,
                        4 if plans[i].mode != RecvMode::None => FailKind::SendInFilter, 5 if plans[i].mode != RecvMode::None => FailKind::SpawnInFilter, _ => FailKind::DivZero };
                    body.push(Action::Fail(k));
                }
            }
        }
        // return: tuple of every variable (so everything observed is reported), or an int
        let ret_fields: Vec<Ex> = vars.iter().map(|(v, k)| match k {
            VK::Bin if rng.chance(1, 3) => Ex::Len(Box::new(Ex::Var(v.clone()))),
            _ => Ex::Var(v.clone()),
        }).collect();
        nodes[i].ret = if ret_fields.is_empty() { Ex::Lit(i as i64) } else { Ex::Tup(ret_fields) };
        nodes[i].body = body;
    }
    Scenario { nodes }
}

impl Scenario {
    pub fn hash(&self) -> u64 { crate::rng::fnv64(self.emit().as_bytes()) }
    pub fn count_actions(&self) -> usize { self.nodes.iter().map(|n| n.body.len()).sum() }
}
