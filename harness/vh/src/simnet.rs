//! SimNet: a deterministic, seeded scheduler over the real `Worker` / `Environment`.
//!
//! Each worker has a command channel (env -> worker) and an event channel (worker -> env).
//! Every channel has two stages: `pending` (sent, not yet visible to the receiver) and
//! `visible`. The receiver only ever sees a prefix of what was sent, never a reordering —
//! the behaviour of an mpsc channel observed by a concurrently running peer. Every item is
//! logged (sent / released / consumed) with a global sequence number: the *boundary log*.
use crate::qv::{Builtins, E};
use crate::rng::Rng;
use quiver_core::effects::EffectBackend;
use quiver_core::process::ProcessId;
use quiver_environment::{Command, CommandReceiver, Environment, EnvironmentError, Event, EventSender, Worker, WorkerHandle};
use std::collections::VecDeque;
use std::sync::{Arc, Mutex};

#[derive(Clone, Debug)]
pub enum Item {
    Cmd(Command<E>),
    Evt(Event<E>),
}

#[derive(Clone, Copy, Debug, PartialEq, Eq)]
pub enum Stage {
    Sent,
    Visible,
    Consumed,
}

#[derive(Clone, Debug)]
pub struct LogEntry {
    /// id of the item (stable across its three stages)
    pub item_id: u64,
    /// global action index at which this happened
    pub at: usize,
    pub stage: Stage,
    pub worker: usize,
    pub item: Item,
}

#[derive(Default)]
pub struct Chan<T> {
    pub pending: VecDeque<(u64, T)>,
    pub visible: VecDeque<(u64, T)>,
}

pub struct Shared {
    pub cmd: Vec<Chan<Command<E>>>,
    pub evt: Vec<Chan<Event<E>>>,
    pub log: Vec<LogEntry>,
    pub next_item: u64,
    pub now: usize,
    /// When true, sends bypass `pending` (most synchronous behaviour).
    pub eager: bool,
    pub log_enabled: bool,
}

impl Shared {
    fn push_log(&mut self, item_id: u64, stage: Stage, worker: usize, item: Item) {
        if self.log_enabled {
            let at = self.now;
            self.log.push(LogEntry { item_id, at, stage, worker, item });
        }
    }
}

pub struct SimRx { sh: Arc<Mutex<Shared>>, w: usize }
pub struct SimTx { sh: Arc<Mutex<Shared>>, w: usize }
pub struct SimHandle { sh: Arc<Mutex<Shared>>, w: usize }

impl CommandReceiver<E> for SimRx {
    fn try_recv(&mut self) -> Result<Option<Command<E>>, EnvironmentError> {
        let mut sh = self.sh.lock().unwrap();
        match sh.cmd[self.w].visible.pop_front() {
            Some((id, c)) => {
                let w = self.w;
                sh.push_log(id, Stage::Consumed, w, Item::Cmd(c.clone()));
                Ok(Some(c))
            }
            None => Ok(None),
        }
    }
}

impl EventSender<E> for SimTx {
    fn send(&mut self, event: Event<E>) -> Result<(), EnvironmentError> {
        let mut sh = self.sh.lock().unwrap();
        let id = sh.next_item;
        sh.next_item += 1;
        let w = self.w;
        sh.push_log(id, Stage::Sent, w, Item::Evt(event.clone()));
        if sh.eager {
            sh.push_log(id, Stage::Visible, w, Item::Evt(event.clone()));
            sh.evt[w].visible.push_back((id, event));
        } else {
            sh.evt[w].pending.push_back((id, event));
        }
        Ok(())
    }
}

impl WorkerHandle<E> for SimHandle {
    fn send(&mut self, command: Command<E>) -> Result<(), EnvironmentError> {
        let mut sh = self.sh.lock().unwrap();
        let id = sh.next_item;
        sh.next_item += 1;
        let w = self.w;
        sh.push_log(id, Stage::Sent, w, Item::Cmd(command.clone()));
        if sh.eager {
            sh.push_log(id, Stage::Visible, w, Item::Cmd(command.clone()));
            sh.cmd[w].visible.push_back((id, command));
        } else {
            sh.cmd[w].pending.push_back((id, command));
        }
        Ok(())
    }
    fn try_recv(&mut self) -> Result<Option<Event<E>>, EnvironmentError> {
        let mut sh = self.sh.lock().unwrap();
        match sh.evt[self.w].visible.pop_front() {
            Some((id, e)) => {
                let w = self.w;
                sh.push_log(id, Stage::Consumed, w, Item::Evt(e.clone()));
                Ok(Some(e))
            }
            None => Ok(None),
        }
    }
}

#[derive(Clone, Copy, Debug, PartialEq, Eq, Hash)]
pub enum Act {
    StepWorker(usize, usize), // worker, quantum
    StepEnv,
    ReleaseCmd(usize, usize), // worker, k
    ReleaseEvt(usize, usize),
    Tick(u64),
}

#[derive(Clone, Debug, PartialEq)]
pub enum Trouble {
    WorkerPanic(usize, String),
    EnvPanic(String),
    WorkerErr(usize, String),
    EnvErr(String),
}

#[derive(Clone, Copy, Debug, PartialEq, Eq)]
pub enum Strategy {
    /// deliver everything at once, strict round robin — deterministic baseline
    Eager,
    Uniform,
    /// release only when nothing else can move
    Lazy,
    /// release one item at a time, uniformly
    Single,
    /// worker `w` only steps when nothing else is enabled
    StarveWorker(usize),
    StarveEnv,
    /// random fixed priorities over actors with a few change points
    Pct,
    RoundRobin,
}

pub const ALL_STRATEGIES: [Strategy; 8] = [
    Strategy::Eager, Strategy::Uniform, Strategy::Lazy, Strategy::Single,
    Strategy::StarveWorker(0), Strategy::StarveEnv, Strategy::Pct, Strategy::RoundRobin,
];

#[derive(Clone, Copy, Debug)]
pub enum QuantumPolicy {
    Fixed(usize),
    /// per step from {1,2,3,7,64,1000}
    Mixed,
    /// worker w pinned to 1, others mixed
    PinOne(usize),
}

/// Called around every worker step (between-step points), e.g. by the C05 select monitor.
pub trait StepObserver {
    fn before_worker_step(&mut self, sim: &Sim, w: usize);
    fn after_worker_step(&mut self, sim: &Sim, w: usize);
}

pub struct Sim {
    pub observer: Option<Box<dyn StepObserver>>,
    /// per-mille chance of inserting a clock tick before an action, and the tick sizes to draw from
    pub tick_permille: u64,
    pub tick_choices: Vec<u64>,
    pub sh: Arc<Mutex<Shared>>,
    pub workers: Vec<Worker<E, SimRx, SimTx>>,
    pub env: Environment<E>,
    pub clock: u64,
    pub actions: Vec<Act>,
    pub trouble: Option<Trouble>,
    pub n: usize,
    /// situations observed at the worker boundary (what state a process was in when a command
    /// addressed to it was about to be consumed)
    pub situations: std::collections::BTreeMap<&'static str, u64>,
    /// run the C06 heap monitor after every worker step
    pub heap_monitor: bool,
    pub heap_violation: Option<(usize, crate::heapmon::HeapViolation)>,
    pub heap_checks: u64,
    pub heap_obs_max: crate::heapmon::HeapObs,
    pub heap_roots: [u64; 8],
    rr: usize,
    pct_prio: Vec<u64>,
    pct_changes: Vec<usize>,
}

#[derive(Clone, Debug, PartialEq)]
pub enum RunEnd {
    /// stop predicate returned true
    Stopped,
    Quiescent,
    StepCap,
    Trouble(Trouble),
}

impl Sim {
    pub fn new(n: usize, builtins: &Builtins, profile: bool, backend: Option<Box<dyn EffectBackend<E = E>>>) -> Sim {
        let sh = Arc::new(Mutex::new(Shared {
            cmd: (0..n).map(|_| Chan { pending: VecDeque::new(), visible: VecDeque::new() }).collect(),
            evt: (0..n).map(|_| Chan { pending: VecDeque::new(), visible: VecDeque::new() }).collect(),
            log: vec![],
            next_item: 0,
            now: 0,
            eager: false,
            log_enabled: true,
        }));
        let mut workers = vec![];
        let mut handles: Vec<Box<dyn WorkerHandle<E>>> = vec![];
        for w in 0..n {
            workers.push(Worker::new(SimRx { sh: sh.clone(), w }, SimTx { sh: sh.clone(), w }, builtins.clone(), profile, w as u16));
            handles.push(Box::new(SimHandle { sh: sh.clone(), w }));
        }
        let mut env = Environment::<E>::new(handles);
        if let Some(b) = backend {
            env.set_effect_backend(b);
        }
        Sim { observer: None, tick_permille: 0, tick_choices: vec![], sh, workers, env, clock: 0, actions: vec![], trouble: None, n, situations: Default::default(), heap_monitor: false, heap_violation: None, heap_checks: 0, heap_obs_max: Default::default(), heap_roots: [0; 8], rr: 0, pct_prio: vec![], pct_changes: vec![] }
    }

    pub fn set_eager(&mut self, eager: bool) {
        let mut sh = self.sh.lock().unwrap();
        sh.eager = eager;
        if eager {
            // flush anything pending
            for w in 0..self.n {
                while let Some(x) = sh.cmd[w].pending.pop_front() { sh.cmd[w].visible.push_back(x); }
                while let Some(x) = sh.evt[w].pending.pop_front() { sh.evt[w].visible.push_back(x); }
            }
        }
    }

    pub fn set_logging(&mut self, on: bool) { self.sh.lock().unwrap().log_enabled = on; }

    pub fn log(&self) -> Vec<LogEntry> { self.sh.lock().unwrap().log.clone() }
    pub fn with_log<R>(&self, f: impl FnOnce(&[LogEntry]) -> R) -> R { f(&self.sh.lock().unwrap().log) }

    /// Clones of the commands currently visible to worker `w` (what its next step will consume).
    pub fn visible_cmds(&self, w: usize) -> Vec<Command<E>> {
        self.sh.lock().unwrap().cmd[w].visible.iter().map(|(_, c)| c.clone()).collect()
    }

    pub fn cmd_pending(&self, w: usize) -> usize { self.sh.lock().unwrap().cmd[w].pending.len() }
    pub fn cmd_visible(&self, w: usize) -> usize { self.sh.lock().unwrap().cmd[w].visible.len() }
    pub fn evt_pending(&self, w: usize) -> usize { self.sh.lock().unwrap().evt[w].pending.len() }
    pub fn evt_visible(&self, w: usize) -> usize { self.sh.lock().unwrap().evt[w].visible.len() }

    pub fn channels_empty(&self) -> bool {
        let sh = self.sh.lock().unwrap();
        sh.cmd.iter().all(|c| c.pending.is_empty() && c.visible.is_empty()) && sh.evt.iter().all(|c| c.pending.is_empty() && c.visible.is_empty())
    }

    pub fn worker_due_timeout(&self, w: usize) -> bool {
        self.workers[w].next_timeout_ms().map(|t| t <= self.clock).unwrap_or(false)
    }

    pub fn next_timeout(&self) -> Option<u64> {
        self.workers.iter().filter_map(|w| w.next_timeout_ms()).min()
    }

    pub fn worker_can_move(&self, w: usize) -> bool {
        self.cmd_visible(w) > 0 || self.workers[w].has_runnable() || self.worker_due_timeout(w)
    }

    /// Perform one action. Returns whether "work was done" as reported by the component.
    pub fn act(&mut self, a: Act) -> bool {
        if self.trouble.is_some() { return false; }
        self.actions.push(a);
        { let mut sh = self.sh.lock().unwrap(); sh.now = self.actions.len(); }
        match a {
            Act::StepWorker(w, q) => {
                self.observe_situations(w);
                if let Some(mut o) = self.observer.take() { o.before_worker_step(self, w); self.observer = Some(o); }
                quiver_core::verif::set_quantum(Some(q));
                let clock = self.clock;
                let worker = &mut self.workers[w];
                let r = std::panic::catch_unwind(std::panic::AssertUnwindSafe(|| worker.step(clock)));
                let did = match r {
                    Ok(Ok(did)) => did,
                    Ok(Err(e)) => { self.trouble = Some(Trouble::WorkerErr(w, format!("{}", e))); false }
                    Err(p) => { self.trouble = Some(Trouble::WorkerPanic(w, crate::pool::panic_msg(&p))); false }
                };
                if self.heap_monitor && self.trouble.is_none() && self.heap_violation.is_none() {
                    match crate::heapmon::check_executor(self.workers[w].verif_executor()) {
                        Ok(o) => {
                            self.heap_checks += 1;
                            for k in 0..8 { self.heap_roots[k] += o.roots_by_kind[k]; }
                            if o.slots > self.heap_obs_max.slots { self.heap_obs_max.slots = o.slots; }
                            if o.reachable > self.heap_obs_max.reachable { self.heap_obs_max.reachable = o.reachable; }
                            if o.freed > self.heap_obs_max.freed { self.heap_obs_max.freed = o.freed; }
                            self.heap_obs_max.exact_mismatch += o.exact_mismatch;
                        }
                        Err(v) => self.heap_violation = Some((w, v)),
                    }
                }
                if self.trouble.is_none() { if let Some(mut o) = self.observer.take() { o.after_worker_step(self, w); self.observer = Some(o); } }
                did
            }
            Act::StepEnv => {
                let env = &mut self.env;
                let r = std::panic::catch_unwind(std::panic::AssertUnwindSafe(|| env.step()));
                match r {
                    Ok(Ok(did)) => did,
                    Ok(Err(e)) => { self.trouble = Some(Trouble::EnvErr(format!("{}", e))); false }
                    Err(p) => { self.trouble = Some(Trouble::EnvPanic(crate::pool::panic_msg(&p))); false }
                }
            }
            Act::ReleaseCmd(w, k) => {
                let mut sh = self.sh.lock().unwrap();
                let mut moved = false;
                for _ in 0..k {
                    if let Some((id, c)) = sh.cmd[w].pending.pop_front() {
                        sh.push_log(id, Stage::Visible, w, Item::Cmd(c.clone()));
                        sh.cmd[w].visible.push_back((id, c));
                        moved = true;
                    }
                }
                moved
            }
            Act::ReleaseEvt(w, k) => {
                let mut sh = self.sh.lock().unwrap();
                let mut moved = false;
                for _ in 0..k {
                    if let Some((id, e)) = sh.evt[w].pending.pop_front() {
                        sh.push_log(id, Stage::Visible, w, Item::Evt(e.clone()));
                        sh.evt[w].visible.push_back((id, e));
                        moved = true;
                    }
                }
                moved
            }
            Act::Tick(dt) => { self.clock += dt; true }
        }
    }

    fn proc_state(&self, w: usize, pid: ProcessId) -> &'static str {
        let ex = self.workers[w].verif_executor();
        let Some(p) = ex.get_process(pid) else { return "unknown" };
        let sv = ex.verif_sched_view();
        if p.result.is_some() && p.frames.is_empty() { "finished" }
        else if sv.spawning.contains(&pid) { "spawning" }
        else if sv.effecting.contains(&pid) { "effecting" }
        else if sv.selecting.contains(&pid) { "selecting" }
        else if p.select_state.as_ref().map(|s| s.receiving.is_some()).unwrap_or(false) { "mid_filter" }
        else if p.select_state.is_some() { "in_select_runnable" }
        else { "running" }
    }

    fn observe_situations(&mut self, w: usize) {
        let cmds: Vec<(u8, ProcessId, bool)> = {
            let sh = self.sh.lock().unwrap();
            sh.cmd[w].visible.iter().filter_map(|(_, c)| match c {
                Command::DeliverMessage { target, .. } => Some((0u8, *target, false)),
                Command::UpdateAwaitResults { awaiter, results } => Some((1u8, *awaiter, results.values().any(|r| r.is_some()))),
                Command::NotifySpawn { process_id, .. } => Some((2u8, *process_id, false)),
                Command::QueryAndAwait { targets, .. } => targets.first().map(|t| (3u8, *t, false)),
                _ => None,
            }).collect()
        };
        for (kind, pid, some) in cmds {
            let st = self.proc_state(w, pid);
            let key: &'static str = match (kind, st, some) {
                (0, "finished", _) => "deliver_to_finished", (0, "spawning", _) => "deliver_while_spawning", (0, "selecting", _) => "deliver_while_selecting",
                (0, "mid_filter", _) => "deliver_mid_filter", (0, "effecting", _) => "deliver_while_effecting", (0, "unknown", _) => "deliver_to_unknown", (0, _, _) => "deliver_while_running",
                (1, "spawning", false) => "await_answer_none_while_spawning", (1, "spawning", true) => "await_answer_some_while_spawning",
                (1, "finished", _) => "await_answer_to_finished", (1, "selecting", true) => "await_answer_some_while_selecting", (1, "selecting", false) => "await_answer_none_while_selecting",
                (1, "mid_filter", _) => "await_answer_mid_filter", (1, _, _) => "await_answer_while_running",
                (2, "spawning", _) => "notify_spawn_while_spawning", (2, _, _) => "notify_spawn_other_state",
                (3, "finished", _) => "query_target_finished", (3, "unknown", _) => "query_target_unknown", (3, _, _) => "query_target_live",
                _ => "other",
            };
            *self.situations.entry(key).or_insert(0) += 1;
        }
    }

    /// Actors: 0..n workers, n = env, n+1..2n+1 cmd channels, 2n+1..3n+1 evt channels.
    pub fn enabled(&self) -> Vec<(usize, Act)> {
        let mut v = vec![];
        let sh = self.sh.lock().unwrap();
        for w in 0..self.n {
            let can = !sh.cmd[w].visible.is_empty() || self.workers[w].has_runnable()
                || self.workers[w].next_timeout_ms().map(|t| t <= self.clock).unwrap_or(false);
            if can { v.push((w, Act::StepWorker(w, 0))); }
        }
        if sh.evt.iter().any(|c| !c.visible.is_empty()) { v.push((self.n, Act::StepEnv)); }
        for w in 0..self.n {
            if !sh.cmd[w].pending.is_empty() { v.push((self.n + 1 + w, Act::ReleaseCmd(w, sh.cmd[w].pending.len()))); }
            if !sh.evt[w].pending.is_empty() { v.push((2 * self.n + 1 + w, Act::ReleaseEvt(w, sh.evt[w].pending.len()))); }
        }
        v
    }

    fn pick_quantum(&self, w: usize, qp: QuantumPolicy, rng: &mut Rng) -> usize {
        const QS: [usize; 6] = [1, 2, 3, 7, 64, 1000];
        match qp {
            QuantumPolicy::Fixed(q) => q,
            QuantumPolicy::Mixed => *rng.pick(&QS),
            QuantumPolicy::PinOne(p) => if p == w { 1 } else { *rng.pick(&QS) },
        }
    }

    /// Run under a strategy until `stop` says so, quiescence, trouble, or the step cap.
    /// `backend_pending` tells whether the (mock) effect backend still holds completions the
    /// environment would collect on its next step.
    pub fn run(&mut self, strat: Strategy, qp: QuantumPolicy, rng: &mut Rng, max_steps: usize,
               backend_pending: &dyn Fn() -> bool, stop: &mut dyn FnMut(&mut Sim) -> bool) -> RunEnd {
        self.set_eager(matches!(strat, Strategy::Eager));
        if matches!(strat, Strategy::Pct) && self.pct_prio.is_empty() {
            self.pct_prio = (0..3 * self.n + 1).map(|_| rng.next()).collect();
            self.pct_changes = (0..3).map(|_| rng.below(max_steps.min(400).max(1))).collect();
        }
        let start = self.actions.len();
        loop {
            if let Some(t) = &self.trouble { return RunEnd::Trouble(t.clone()); }
            if self.heap_violation.is_some() { return RunEnd::Stopped; }
            if stop(self) { return RunEnd::Stopped; }
            if self.actions.len() - start >= max_steps { return RunEnd::StepCap; }
            if self.tick_permille > 0 && !self.tick_choices.is_empty() && rng.chance(self.tick_permille, 1000) {
                let dt = *rng.pick(&self.tick_choices);
                self.act(Act::Tick(dt));
            }
            let mut en = self.enabled();
            if backend_pending() && !en.iter().any(|(_, a)| matches!(a, Act::StepEnv)) {
                en.push((self.n, Act::StepEnv));
            }
            if en.is_empty() {
                // only time can move things now
                match self.next_timeout() {
                    Some(t) if t > self.clock => { let dt = t - self.clock; self.act(Act::Tick(dt)); continue; }
                    _ => return RunEnd::Quiescent,
                }
            }
            let (actor, mut a) = match strat {
                Strategy::Eager | Strategy::RoundRobin => {
                    // strict rotation over actors
                    let total = 3 * self.n + 1;
                    let mut chosen = None;
                    for k in 0..total {
                        let cand = (self.rr + k) % total;
                        if let Some(x) = en.iter().find(|(ac, _)| *ac == cand) { chosen = Some(*x); self.rr = (cand + 1) % total; break; }
                    }
                    chosen.unwrap()
                }
                Strategy::Uniform | Strategy::Single => *rng.pick(&en),
                Strategy::Lazy => {
                    let non: Vec<_> = en.iter().filter(|(_, a)| !matches!(a, Act::ReleaseCmd(..) | Act::ReleaseEvt(..))).copied().collect();
                    if non.is_empty() { *rng.pick(&en) } else { *rng.pick(&non) }
                }
                Strategy::StarveWorker(w) => {
                    let non: Vec<_> = en.iter().filter(|(ac, _)| *ac != w % self.n).copied().collect();
                    if non.is_empty() { *rng.pick(&en) } else { *rng.pick(&non) }
                }
                Strategy::StarveEnv => {
                    let non: Vec<_> = en.iter().filter(|(ac, _)| *ac != self.n).copied().collect();
                    if non.is_empty() { *rng.pick(&en) } else { *rng.pick(&non) }
                }
                Strategy::Pct => {
                    let step = self.actions.len() - start;
                    if self.pct_changes.contains(&step) {
                        let i = rng.below(self.pct_prio.len());
                        self.pct_prio[i] = rng.next() >> 8; // demote
                    }
                    *en.iter().max_by_key(|(ac, _)| self.pct_prio[*ac]).unwrap()
                }
            };
            // refine the action: quantum, partial release
            match a {
                Act::StepWorker(w, _) => a = Act::StepWorker(w, self.pick_quantum(w, qp, rng)),
                Act::ReleaseCmd(w, k) => {
                    let kk = match strat { Strategy::Single => 1, Strategy::Eager | Strategy::RoundRobin => k, _ => 1 + rng.below(k) };
                    a = Act::ReleaseCmd(w, kk);
                }
                Act::ReleaseEvt(w, k) => {
                    let kk = match strat { Strategy::Single => 1, Strategy::Eager | Strategy::RoundRobin => k, _ => 1 + rng.below(k) };
                    a = Act::ReleaseEvt(w, kk);
                }
                _ => {}
            }
            let _ = actor;
            self.act(a);
        }
    }

    /// Replay a recorded action list.
    pub fn replay(&mut self, acts: &[Act]) {
        for a in acts { self.act(*a); if self.trouble.is_some() { break; } }
    }

    /// After quiescence: one idle step per worker so deferred frees are processed (does not
    /// change program-visible state).
    pub fn settle(&mut self) {
        for w in 0..self.n { self.act(Act::StepWorker(w, 1000)); }
    }

    pub fn host_of(&self, pid: ProcessId) -> Option<usize> {
        self.env.verif_process_router().get(&pid).copied()
    }

    pub fn process(&self, pid: ProcessId) -> Option<&quiver_core::process::Process> {
        let w = self.host_of(pid)?;
        self.workers[w].verif_executor().get_process(pid)
    }

    pub fn all_pids(&self) -> Vec<ProcessId> {
        let mut v: Vec<_> = self.env.verif_process_router().keys().copied().collect();
        v.sort();
        v
    }

    pub fn schedule_hash(&self) -> u64 {
        let mut h: u64 = 0xcbf29ce484222325;
        for a in &self.actions {
            let x: u64 = match a {
                Act::StepWorker(w, q) => 1 + (*w as u64) * 31 + (*q as u64) * 977,
                Act::StepEnv => 2,
                Act::ReleaseCmd(w, k) => 3 + (*w as u64) * 37 + (*k as u64) * 1009,
                Act::ReleaseEvt(w, k) => 4 + (*w as u64) * 41 + (*k as u64) * 1013,
                Act::Tick(d) => 5 + d * 7,
            };
            h ^= x; h = h.wrapping_mul(0x100000001b3);
        }
        h
    }

    /// Hash of the order in which workers consumed commands / env consumed events (kinds only,
    /// pid-free) — a proxy for "distinct interleavings actually produced".
    pub fn consumption_hash(&self) -> u64 {
        let sh = self.sh.lock().unwrap();
        let mut h: u64 = 0xcbf29ce484222325;
        for e in sh.log.iter().filter(|e| e.stage == Stage::Consumed) {
            let k: u64 = match &e.item {
                Item::Cmd(c) => 100 + cmd_kind(c) as u64,
                Item::Evt(ev) => 200 + evt_kind(ev) as u64,
            };
            h ^= k.wrapping_mul(31).wrapping_add(e.worker as u64); h = h.wrapping_mul(0x100000001b3);
        }
        h
    }
}

pub fn cmd_kind(c: &Command<E>) -> u8 {
    match c {
        Command::UpdateProgram(_) => 0, Command::StartProcess { .. } => 1, Command::SpawnProcess { .. } => 2,
        Command::ResumeProcess { .. } => 3, Command::QueryAndAwait { .. } => 4, Command::UpdateAwaitResults { .. } => 5,
        Command::DeliverMessage { .. } => 6, Command::NotifySpawn { .. } => 7, Command::GetResult { .. } => 8,
        Command::EffectCompletion { .. } => 9, Command::CompactLocals { .. } => 10, Command::GetLocals { .. } => 11,
        _ => 12,
    }
}

pub fn evt_kind(e: &Event<E>) -> u8 {
    match e {
        Event::SpawnAction { .. } => 0, Event::DeliverAction { .. } => 1, Event::AwaitAction { .. } => 2,
        Event::ProcessResults { .. } => 3, Event::ResultResponse { .. } => 4, Event::EffectRequest { .. } => 5,
        Event::WorkerError { .. } => 6, _ => 7,
    }
}

pub fn act_to_json(a: &Act) -> serde_json::Value {
    use serde_json::json;
    match a {
        Act::StepWorker(w, q) => json!(["W", w, q]),
        Act::StepEnv => json!(["E"]),
        Act::ReleaseCmd(w, k) => json!(["RC", w, k]),
        Act::ReleaseEvt(w, k) => json!(["RE", w, k]),
        Act::Tick(d) => json!(["T", d]),
    }
}

pub fn act_from_json(j: &serde_json::Value) -> Option<Act> {
    let a = j.as_array()?;
    let g = |i: usize| a.get(i).and_then(|x| x.as_u64());
    match a.first()?.as_str()? {
        "W" => Some(Act::StepWorker(g(1)? as usize, g(2)? as usize)),
        "E" => Some(Act::StepEnv),
        "RC" => Some(Act::ReleaseCmd(g(1)? as usize, g(2)? as usize)),
        "RE" => Some(Act::ReleaseEvt(g(1)? as usize, g(2)? as usize)),
        "T" => Some(Act::Tick(g(1)?)),
        _ => None,
    }
}
