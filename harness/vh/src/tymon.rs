//! IsType monitor: steps a program one instruction at a time and, at every `IsType(t)` the VM executes, compares the VM's
//! verdict with structural membership of the actual value in `t` (walk over the environment's type registry).
//! Two events: `rejected_structural_member` (the value is in the type but the test says no — allowed by C08 when the value was
//! built at a wider static type, and the trigger of the recorded C02 finding) and `accepted_non_member`.
use crate::procsys::*;
use crate::qv;
use crate::simnet::*;
use quiver_core::bytecode::Instruction;
use quiver_core::program::Program;
use quiver_core::types::{Type, TypeLookup};
use quiver_core::value::Value;
use std::cell::RefCell;
use std::collections::BTreeMap;
use std::rc::Rc;

pub fn value_inhabits(v: &Value, id: usize, p: &Program, stack: &mut Vec<usize>, fuel: usize) -> Option<bool> {
    if fuel > 200 { return None; }
    let t = p.lookup_type(id)?;
    Some(match t {
        Type::Integer => matches!(v, Value::Integer(_)),
        Type::Binary => matches!(v, Value::Binary(_)),
        Type::Reference => matches!(v, Value::Reference(_)),
        Type::Tuple(tid) => {
            let info = p.lookup_tuple(*tid)?;
            match v {
                Value::Tuple(vt, fields) => {
                    let vinfo = p.lookup_tuple(*vt)?;
                    if info.name != vinfo.name || info.fields.len() != fields.len() { return Some(false); }
                    for (((tl, tt), (vl, _)), fv) in info.fields.iter().zip(vinfo.fields.iter()).zip(fields.iter()) { if tl != vl { return Some(false); } if !value_inhabits(fv, *tt, p, stack, fuel + 1)? { return Some(false); } }
                    true
                }
                _ => false,
            }
        }
        Type::Partial { name, fields } => match v {
            Value::Tuple(vt, vf) => {
                let vinfo = p.lookup_tuple(*vt)?;
                if name.is_some() && *name != vinfo.name { return Some(false); }
                for (l, ft) in fields { match vinfo.fields.iter().position(|(vl, _)| vl.as_deref() == Some(l.as_str())) { Some(ix) => if !value_inhabits(&vf[ix], *ft, p, stack, fuel + 1)? { return Some(false); }, None => return Some(false) } }
                true
            }
            _ => false,
        },
        Type::Union(ms) => {
            stack.push(id);
            let mut r = Some(false);
            for m in ms { match value_inhabits(v, *m, p, stack, fuel + 1) { Some(true) => { r = Some(true); break; } Some(false) => {} None => { r = None; } } }
            stack.pop();
            return r;
        }
        Type::Cycle(d) => {
            if *d == 0 || *d > stack.len() { return None; }
            let ix = stack.len() - d; let target = stack[ix];
            let saved = stack.split_off(ix);
            let r = value_inhabits(v, target, p, stack, fuel + 1);
            stack.extend(saved);
            return r;
        }
        Type::Variable(_) => return None,
        Type::Callable { .. } | Type::Process { .. } | Type::Resource(_) => return None,
    })
}

#[derive(Default)]
pub struct TyMon { pending: BTreeMap<(usize, usize), Option<bool>>, pub tests: u64, pub rejected_structural_member: u64, pub accepted_non_member: u64, pub undecided: u64 }

struct Shared(Rc<RefCell<TyMon>>);

impl StepObserver for Shared {
    fn before_worker_step(&mut self, sim: &Sim, w: usize) {
        let mut m = self.0.borrow_mut();
        let ex = sim.workers[w].verif_executor();
        let prog = sim.env.get_program();
        for pid in &ex.verif_sched_view().processes {
            let Some(p) = ex.get_process(*pid) else { continue };
            let Some(top) = p.frames.last() else { continue };
            let Some(f) = prog.get_functions().get(top.function_index) else { continue };
            if let Some(Instruction::IsType(tid)) = f.instructions.get(top.counter) { if let Some(v) = p.stack.last() { let mut st = vec![]; let e = value_inhabits(v, *tid, prog, &mut st, 0); m.pending.insert((w, *pid), e); } }
        }
    }
    fn after_worker_step(&mut self, sim: &Sim, w: usize) {
        let mut m = self.0.borrow_mut();
        let ex = sim.workers[w].verif_executor();
        let keys: Vec<(usize, usize)> = m.pending.keys().filter(|(ww, _)| *ww == w).cloned().collect();
        for key in keys {
            let expected = m.pending.remove(&key).unwrap();
            let Some(p) = ex.get_process(key.1) else { continue };
            let Some(verdict) = p.stack.last() else { continue };
            let said_yes = !matches!(verdict, Value::Tuple(0, f) if f.is_empty());
            m.tests += 1;
            match expected { Some(true) if !said_yes => m.rejected_structural_member += 1, Some(false) if said_yes => m.accepted_non_member += 1, None => m.undecided += 1, _ => {} }
        }
    }
}

/// run `src` one instruction per step under the monitor
pub fn run(src: &str, b: &qv::Builtins, max_actions: usize) -> Option<TyMon> {
    let bc = compile_entry(src, b).ok()?;
    let mut sim = Sim::new(1, b, false, None);
    sim.set_logging(false);
    start_program(&mut sim, bc).ok()?;
    let mon = Rc::new(RefCell::new(TyMon::default()));
    sim.observer = Some(Box::new(Shared(mon.clone())));
    let mut rng = crate::rng::Rng::new(1);
    let _ = sim.run(Strategy::Eager, QuantumPolicy::Fixed(1), &mut rng, max_actions, &|| false, &mut |_s| false);
    sim.observer = None;
    let m = std::mem::take(&mut *mon.borrow_mut());
    Some(m)
}
