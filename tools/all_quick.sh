#!/bin/bash
# run every quick check at the given seeds; one summary line per run
cd /verif || exit 2
for S in "$@"; do
  for ID in C01 C02 C03 C04 C05 C06 C07 C08 C09 C10 C11 C12 C13 C14 C15 C16 C17 C18 C19 C20; do
    OUT=$(VERIF_SEED=$S timeout 1200 ./check $ID quick 2>&1); EC=$?
    echo "seed=$S $ID exit=$EC $(echo "$OUT" | grep -c '^VIOLATION') violations :: $(echo "$OUT" | grep "quick seed" | tail -1 | cut -c1-160)"
  done
done
