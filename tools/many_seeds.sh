#!/bin/bash
# usage: tools/many_seeds.sh "<IDs>" <from> <to> [tier]
cd /verif || exit 2
TIER=${4:-quick}
for S in $(seq $2 $3); do for ID in $1; do
  OUT=$(VERIF_SEED=$S timeout 3000 ./check $ID $TIER 2>&1); EC=$?
  echo "seed=$S $ID exit=$EC $(echo "$OUT" | grep -c '^VIOLATION') violations :: $(echo "$OUT" | grep "$TIER seed" | tail -1 | cut -c1-140)"
  if [ $EC -ne 0 ]; then echo "$OUT" | grep "signature=" | head -3 | cut -c1-300; fi
done; done
