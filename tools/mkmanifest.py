#!/usr/bin/env python3
"""Regenerates /verif/MANIFEST.json from the table below (single source of truth)."""
import json, subprocess

CHECKS = {
 "C03": dict(
   technique="runtime monitoring: seeded deterministic scheduler (SimNet) over the real Worker/Environment + executable scenario model as oracle",
   text="Generated confluent process systems are executed on the real workers/environment under thousands of chosen interleavings (worker count 1-5, 8 scheduling strategies incl. PCT, partial channel visibility, quantum 1..1000); per-process results must equal the scenario model's single outcome, every run must reach quiescence with all processes terminated, and no step may panic or return Err. Held-on-observed-executions only.",
   design="§3 C03, §2.3, §2.4",
   note="Trusts SimNet's atomic-step/prefix-visibility equivalence argument (DESIGN §2.3) and the Kahn-style scenario model; HashMap iteration order inside the repo is not controlled."),
 "C04": dict(
   technique="runtime monitoring: offline checker over the SimNet boundary event log (conservation, exactly-once, per-sender FIFO) + quiescence (no lost wake-up) check",
   text="Generated fan-in/fan-out/request-reply/await-chain scenarios with unique messages [sender,seq,payload] run on the real workers/environment under chosen interleavings; three monitors: environment boundary conservation (each DeliverAction forwarded once, in order, to the hosting worker; each SpawnAction -> one SpawnProcess + one NotifySpawn), end state (received + leftover mailbox == sent as multisets, per-sender order preserved), and no process parked at quiescence although its sources were sent. Evidence counts the situations seen (delivery to finished / spawning / selecting / mid-filter processes).",
   design="§3 C04",
   note="Trusts SimNet's interleaving model and the static-control-flow argument that makes completion schedule independent (DESIGN §2.4)."),
 "C15": dict(
   technique="runtime monitoring: scenario model of process fates + catch_unwind around every Worker::step/Environment::step on SimNet",
   text="Process trees with a failing operation at a random place (builtin domain errors; forbidden send/spawn inside a receive filter) run under chosen interleavings; every process's fate must match the model (unaffected processes complete with their normal value, awaiters of the failed process fail with the same Error value, bystanders blocked on a never-sent message stay parked), and no step may panic or return an internal error.",
   design="§3 C15",
   note="Failure kinds limited to those the scenario DSL can place; effect errors and ownership violations are exercised by C14's workload."),
 "C06": dict(
   technique="runtime monitoring: heap invariant monitor (independent root walk vs executor accounting via hook) after every worker step + end-to-end byte read-back against a model",
   text="Binary-flow programs and message scenarios run on SimNet with quantum down to 1; after every worker step an independent root walk is compared with the executor's refcounts/freed/free/pending_free (positivity <=> reachability, reachable => not freed, free list consistent, zero-count slots queued for reclamation, no dangling index); at the end all binaries are read back and compared with model bytes.",
   design="§3 C06",
   note="Exact refcount multiplicity is recorded as an early warning only (the property states positivity). REPL local compaction is exercised by C11's workload with the same monitor."),
 "C05": dict(
   technique="runtime monitoring: online select monitor at between-step points (state-at-completion vs executable select model) + offline log checker for completion-fact conservation and mailbox order",
   text="Generated selects (1-4 sources: awaits, type-only receives, pure filter receives, timeouts; helpers that send unique messages then finish or fail) run on the real workers/environment with quantum 1 on the selecting process's worker and random virtual-clock ticks; at the step where the select completes, the state known to the process is fed to a small model that returns the outcomes the statement allows (written-order priority, earliest acceptable message, timeout not before its duration, failure propagation at the failed source's position); afterwards 'later receives ++ mailbox' must equal the observed arrival order minus the taken message, and every completion fact the environment consumed must have been forwarded.",
   design="§3 C05",
   note="Filters are pure by construction; timeout readiness is two-sided tolerant at elapsed == d. The worker-layer oracle needs quantum 1 on worker 0, which all C05 schedules use."),
 "C14": dict(
   technique="runtime monitoring: offline checker over the environment's consumed-event log beside a mock EffectBackend's call log (ownership model, exactly-once close)",
   text="Generated resource scenarios (real quiver_io file builtins, mock backend that logs every execute/close_resource) with handles moved by message, tuple, spawn argument, capture and captured closure, then used/closed/forwarded/held/left in a mailbox by awaited and un-awaited owners, under chosen interleavings incl. deferred effect completions; an ownership model driven by the environment's event consumption order decides for every effect request whether it must or must not reach the backend, that offenders fail, that completion reports close exactly the reported process's open resources once, and that no terminated owner keeps an open resource at quiescence. Two defect classes are recorded as known findings (resources of un-awaited owners / of already-reported dead recipients are never closed).",
   design="§3 C14",
   note="Operations on already closed resources are counted, not judged. The io_uring native backend itself is not exercised (mock backend)."),
 "C12": dict(
   technique="runtime monitoring: differential oracle (reference models over BigInt/Vec<u8>) around direct builtin calls, catch_unwind + child-process isolation, both build profiles (overflow checks / debug assertions as sanitizers)",
   text="All 45 pure builtins are called directly with arguments of their declared type drawn from boundary pools (magnitudes around 2^31/2^32/2^63/2^64, 16 MiB limits, unaligned bit windows) with binaries built in random rope shapes of equal content; results are compared with three-zone reference models (must-value / must-error / either), every rope-shaped case is repeated with flat arguments, panics are caught per call and aborts/OOM are attributed through child processes; run in the overflow-checked and the release profile.",
   design="§3 C12",
   note="Models follow the builtins' doc comments; where they are silent the model accepts an error or the listed value(s). Slow cases are inconclusive (hang verdicts would need the scaling test of DESIGN §2.8). sin/cos are checked for totality only."),
 "C20": dict(
   technique="runtime monitoring: differential oracle (exact arithmetic in Q(sqrt n) over BigInt) + model-free canonical-form monitor over generated %num programs",
   text="Batches of %num operations on nil / small / huge (beyond 64 bit) / negative integers, canonical rationals (also written as unreduced fraction literals) and single-radical surds are compiled and run; each result must equal the exact result in the module's canonical representation (ints stay ints, rational paths never lower, surd paths collapse, div always rational), be nil exactly for nil operands, division by zero and mixed radicals, never be a runtime error, and pass a structural canonicity check (gcd 1, positive denominator, b != 0, square-free radical).",
   design="§3 C20",
   note="min/max/clamp with incomparable radicals are not judged; sqrt only on small radicands (documented O(sqrt n))."),
 "C19": dict(
   technique="runtime monitoring: history checker against a host-side persistent map model over generated %dict programs with adversarial (colliding) keys",
   text="Histories of 5-400 put/replace/remove/from/merge operations over key pools built to collide (Str[b] vs b, full 32-bit FNV-1a collisions found by birthday search, keys sharing the first 1-6 hash fragments) are compiled into one program that retains every version and observes get/has?/count/entries/keys/values on new and old versions; every observation must equal a BTreeMap model of that version.",
   design="§3 C19",
   note="Values are integers; iteration order is compared as a multiset (documented as unspecified)."),
 "C18": dict(
   technique="runtime monitoring: mutation/ladder workload over the corpus extracted from the current tree, catch_unwind + child-process isolation on an 8 MiB stack, position-consistency monitor, timing-based hang discipline",
   text="Prefixes, single-token deletions/duplications/substitutions, character-level edits (NUL, multi-byte UTF-8, CRLF), numeric extremes in numeric positions, splices, token soup and 36 nesting ladders (value / pattern / type positions, depth <= 100) are parsed and, when accepted, compiled in the release profile inside child processes; no panic or abort may occur, every parse error position must lie inside the input and agree with its line, and ladders are judged by a scaling test (x4 per 4 levels twice and > 1 h extrapolated). Seven exponential parenthesised-type ladders are recorded as known findings.",
   design="§3 C18, §2.8",
   note="Slow/stalled non-ladder inputs are inconclusive. The libFuzzer job sketched in DESIGN is not built (mutation families + corpus play that role)."),
 "C17": dict(
   technique="runtime monitoring: metamorphic oracle (parse / re-format / canonical-AST equality) + comment-order monitor with an interpolation-aware lexer over corpus-derived sources, with comment shrinking for root-cause signatures",
   text="Sources derived from the corpus of the current tree (trivia injected at token boundaries, dense comments, stretched identifiers across the 40/50/100-column thresholds, layout rewrites, string/escape/hole/multi-line shapes) are formatted; the output must parse, be a fixpoint, have the same canonical AST, and carry every input comment in order and nothing else. Violations are shrunk (comments removed while the violation persists) and keyed by (kind, syntactic context of the remaining comment); 32 such classes of pre-existing formatter defects are listed as known findings, two were repaired.",
   design="§3 C17",
   note="Because many comment-placement contexts are already broken, a regression inside an already-listed (kind, context) class is masked; new classes are reported. Comment rule skipped when a pattern string contains `{`."),
 "C07": dict(
   technique="runtime monitoring of the compiler's artefacts: a dataflow bytecode verifier as the invariant oracle over every function emitted for a generated/extracted workload, plus a dynamic cross-check of the abstraction against the real interpreter at every instruction boundary",
   text="Every program accepted from the corpus of the current tree, the std modules and the harness generators is verified function by function as compiled, after tree-shaking, and after each merge into an environment holding other programs: jumps in range, no stack underflow, one stack height per pc, exit height exactly 1 (also at tail calls), locals reads/resets within what is defined on every path, all table indices and type-table ids in range. On a sample the program is executed with quantum 1 and the observed (function, pc, height, locals) at every boundary must lie in the verifier's abstract state (4.6 M states in the quick tier).",
   design="§3 C07",
   note="The invariant needs a small dataflow pass to evaluate 'on every path'; it is an oracle over observed artefacts and says nothing about functions the workload never makes the compiler emit."),
 "C09": dict(
   technique="runtime monitoring: value-enumeration oracle (exact finite membership under source-level type semantics) around the real is_compatible / types_overlap / intersect_types / compute_complement on front-end-built type ids",
   text="Alias programs over ints, bins, refs, named/unnamed tuples, labels, partials, unions, tuple-guarded recursion and function types are compiled by the real front end; for every ordered pair: assignable => every enumerated member of A is a member of B; a shared enumerated value => overlap reported; members in/not in B must be in the intersection / complement; reflexivity; transitivity on triples; and the compiled graph must admit exactly the source type's enumerated values. Four non-recursive defects were repaired; the recursive-type defects are known findings.",
   design="§3 C09",
   note="No counter-example among values of depth <= 3/4 over a small atom pool; process types excluded; narrowing results' outermost cycles are read against the declared type (the compiler's own convention)."),
 "C08": dict(
   technique="runtime monitoring: exact finite membership oracle (source-level type semantics) around in-language type tests, run in four execution configurations and compared",
   text="Literal values enumerated from generated alias programs are tested with `='t`, `=('t)x` and through a generic identity; accepted => inhabits the type as written; compile-time type contained in the target => accepted. Every program runs directly, tree-shaken, merged after 0-4 unrelated corpus programs and in a REPL session with aliases on an earlier line; the verdict vectors must agree. One defect class (recursive partials) is a known finding.",
   design="§3 C08",
   note="Function/process/resource types are not generated here; wider-static-type rejections are allowed (documented carve-out)."),
 "C01": dict(
   technique="runtime monitoring: every accepted program of the workload is executed on the real worker under three monitors — VM-level failure in any process (stuck), produced value vs the compiler's inferred result type (walk over the real type registry), and an independent reference evaluator that reports dynamic type errors",
   text="Workload: repository corpus (tests, docs, std), acceptance-boundary mutations of it, generated programs (C02 generator, plain and nil-binder variants), generated programs pushed across the acceptance boundary by an ill-typing mutator (int<->bin, value->nil, scalar->tuple/string/union block, step boundary->chain), and process programs from the scenario generator. Rejected programs are counted; accepted ones must not get stuck, must produce values of the inferred type, and must not be ill-typed under the reference evaluator.",
   design="§3 C01",
   note="Three recorded type holes (tail-call argument unchecked; bare binder of nil typed non-nil; failed mid-chain match keeps its narrowing) are attributed by the trigger event observed in the same run, never in the plain generated family."),
 "C02": dict(
   technique="runtime monitoring: differential oracle — every executed program is also evaluated by an independent reference evaluator of docs/spec.md (harness/vh/src/refsem.rs) and the normalised results compared",
   text="Workload: the repository's own test and docs programs, perturbed copies of them (literals, branch order, =>/, swaps), and programs from a typed generator aimed at stack/locals bookkeeping (partially failing patterns mid-chain, bindings in branches that fall through, multi-step consequences, ~ at depth, spreads, closures, $, tail calls from nested blocks, string holes). Compiled through the real compiler and run on the real worker; value and error-vs-value must equal the reference evaluator's.",
   design="§3 C02",
   note="Programs using processes, %ref, context-inferred function literals or type tests on function types are outside the reference evaluator and are counted inconclusive, not decided."),
 "C10": dict(
   technique="runtime monitoring: differential oracle over real executions — each accepted program is executed through every packaging path on the real worker/environment and the real `quiv` binary, and the canonical outcomes compared",
   text="Workload: repository corpus, generated sequential programs, process scenarios. Paths: as compiled, tree-shaken, serde_json round trip (plain and shaken), merged after 1-4 other programs (plain or shaken, sometimes a copy of itself). `quiv run -e` vs `quiv compile` + `quiv run` (and the printed value re-evaluated against the in-process value). Generated modules: `%lib` / `%lib.member` vs the module body evaluated in place.",
   design="§3 C10",
   note="The CLI family skips process and I/O programs; outcomes are compared after erasing function indices."),
 "C11": dict(
   technique="runtime monitoring: session monitor — every line of a real Repl session (driven over the SimNet scheduler with the heap-invariant monitor on) is compared with the single program of all accepted lines so far; rejected lines are checked to leave the session unchanged",
   text="Sessions of generated top-level steps (grouped 1-3 per line, renamed apart), alias / destructuring / shadowing / import / closure-capture / previous-result lines and injected parse- and compile-rejected lines, on 1-3 workers under eager, uniform and lazy schedules. Oracle per line: REPL outcome == joined-program outcome; rejected line: get_variables() unchanged and the joined program rejects it too.",
   design="§3 C11",
   note="The comparison of a session ends at the first nil line (the single program would short-circuit there)."),
 "C13": dict(
   technique="runtime monitoring: model-based oracle — the real VM's equality verdicts (pin, pin inside a tuple, repeated binder, literal pattern, received message) on values built along two independent construction paths are compared with structural equality of the abstract values; ref uniqueness is checked over refs minted by several processes on several workers",
   text="Abstract values (ints, binaries incl. long ones, nested named/labelled tuples, Str) and minimal perturbations of them, each built as literal / computed / spread / from union-typed variables / through a generic function / imported from a module / awaited from a process / received as a message / returned by a closure; all ordered pairs of paths, both orders of comparison. Refs: 2-5 processes mint 1-3 refs each on 1-4 workers under three schedules, the root compares pairs. Functions and processes: definition + captures, identity.",
   design="§3 C13",
   note="Two textually identical but separate function definitions are not compared."),
 "C16": dict(
   technique="runtime monitoring: space monitor (executor peak counters + heap slot count) over tail-recursive shape templates executed at N and 50N",
   text="Tail-recursive shapes (self ^ in body / consequence / nested blocks / after bindings / after failed matches, named ^self through a passed function, ^~, per-iteration binaries, tuples, strings, and receive loops with int and binary messages) run at N and 50N on fresh profiled workers; peak frames, locals and operand stack must be identical and heap slots must not grow.",
   design="§3 C16",
   note="The counting-allocator byte check sketched in DESIGN is not built; REPL-hosted loops are not covered."),
}

NOT_BUILT = "check not built yet in this round (work in progress; see DESIGN.md §6 build order)"

def main():
    props = [json.loads(l)["id"] for l in open("/verif/properties.jsonl")]
    commits = subprocess.run(["git","-C","/repo","log","--format=%h %s"],capture_output=True,text=True).stdout.splitlines()
    hook_commits = [c.split()[0] for c in commits if c.split(" ",1)[1].startswith("verif hooks")]
    m = {
      "version": 1,
      "setup_cmd": "cd /verif/harness && CARGO_NET_OFFLINE=true cargo build --offline --profile checked -q && CARGO_NET_OFFLINE=true cargo build --offline --profile faithful -q",
      "hooks": {
        "guard": "cargo feature `verif` (quiver-core, quiver-compiler, quiver-environment); off by default",
        "enable": "the harness crates depend on the /repo crates by path with features=[\"verif\"]; ./check rebuilds them from the current working tree",
        "baseline_off_cmd": "cd /repo && cargo test --workspace --no-fail-fast --offline",
        "source_commits": hook_commits,
        "add_only": True,
      },
      "engines": [
        {"name": "vcheck", "path": "/verif/harness", "serves_properties": sorted(CHECKS), "kind_free_text": "Rust harness: SimNet deterministic scheduler, scenario DSL + models, generators, monitors; one subcommand per property"},
      ],
      "checks": [],
      "not_applicable": [],
      "notes": "All verdicts are three-valued (violated / held on what was observed / inconclusive); inconclusive cases are counted in the evidence and never change the exit code. Known findings: /verif/known_findings.json.",
    }
    for pid in props:
        if pid in CHECKS:
            c = CHECKS[pid]
            m["checks"].append({
              "property_id": pid,
              "quick_cmd": f"./check {pid} quick",
              "thorough_cmd": f"./check {pid} thorough",
              "evidence_file": f"/verif/evidence/{pid}.json",
              "replay_cmd_template": "./harness/target/checked/vcheck replay {path}",
              "engine": "vcheck",
              "level_claimed": {"category": "exploration", "text": c["text"], "design_ref": c["design"]},
              "level_note": c["note"],
              "technique": c["technique"],
            })
        else:
            m["not_applicable"].append({"property_id": pid, "reason": NOT_BUILT})
    json.dump(m, open("/verif/MANIFEST.json","w"), indent=1)
    print("claimed:", sorted(CHECKS), "not claimed:", len(m["not_applicable"]))

main()
