#!/bin/bash
# For every "fixed" entry of known_findings.json: reverse the fix on /repo's working tree, run the check(s) that should
# notice, restore the tree.  Writes /verif/seeded/regress-<commit>/{patch.diff,meta.json,result.txt}.
# usage: tools/regress_seeds.sh [commit ...]
cd /verif || exit 2
python3 - "$@" <<'PY' > /tmp/regress_list.txt
import json,sys
d=json.load(open('/verif/known_findings.json'))
only=set(sys.argv[1:])
for f in d['fixed']:
    c=f.get('commit')
    if not c: continue
    if only and c not in only: continue
    print(c, f['property'])
PY
while read -r C P; do
  D=/verif/seeded/regress-$C
  mkdir -p "$D"
  if [ -n "$(git -C /repo status --porcelain)" ]; then echo "repo dirty, abort"; exit 2; fi
  git -C /repo show "$C" --format= -- . > /tmp/fix-$C.diff
  if ! git -C /repo apply -R --check /tmp/fix-$C.diff 2>/dev/null; then echo "$C $P reverse-does-not-apply" | tee "$D/result.txt"; continue; fi
  git -C /repo apply -R /tmp/fix-$C.diff
  git -C /repo diff > "$D/patch.diff"
  CHECKS="$P"
  case "$P" in C01) CHECKS="C01 C02";; C02) CHECKS="C02 C01";; C09) CHECKS="C09 C02";; C11) CHECKS="C11";; esac
  RES=""
  for K in $CHECKS; do
    OUT=$(VERIF_ROOT_OVERRIDE= timeout 900 ./check "$K" quick 2>&1); EC=$?
    NV=$(echo "$OUT" | grep -c "^VIOLATION")
    RES="$RES $K:exit=$EC:violations=$NV"
    echo "$OUT" | grep "^VIOLATION\|signature=" | head -4 > "$D/$K.out"
  done
  git -C /repo checkout -- .
  echo "$C $P$RES" | tee "$D/result.txt"
done < /tmp/regress_list.txt
