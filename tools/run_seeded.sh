#!/bin/bash
# Apply each seeded change (seeded/<ID>/patch.diff) to /repo's working tree, run that property's check, restore the tree.
# usage: tools/run_seeded.sh [ID ...]      results: seeded/<ID>/result.txt
cd /verif || exit 2
ROOTDIR=${SEED_ROOT:-/verif/seeded}      # SEED_ROOT=/verif/seeded/round2 for the second round
IDS="$@"; [ -z "$IDS" ] && IDS=$(ls "$ROOTDIR" | grep "^C[0-9][0-9]$")
for ID in $IDS; do
  D=$ROOTDIR/$ID
  [ -f "$D/patch.diff" ] || continue
  if [ -n "$(git -C /repo status --porcelain)" ]; then echo "repo dirty, abort"; exit 2; fi
  if ! git -C /repo apply --check "$D/patch.diff" 2>/dev/null; then echo "$ID patch-does-not-apply" | tee "$D/result.txt"; continue; fi
  git -C /repo apply "$D/patch.diff"
  find /repo/std -name '*.qv' -newer /verif/harness/target/checked/vcheck >/dev/null 2>&1
  P=${ID%%-*}
  RES=""
  for TIER in quick thorough; do
    OUT=$(timeout 3000 ./check "$P" "$TIER" 2>&1); EC=$?
    NV=$(echo "$OUT" | grep -c "^VIOLATION")
    RES="$RES $TIER:exit=$EC:violations=$NV"
    echo "$OUT" | grep "^VIOLATION\|signature=" | head -6 > "$D/$TIER.out"
    [ "$EC" = "1" ] && break
  done
  git -C /repo checkout -- .
  touch /repo/quiver-compiler/src/resolver.rs
  echo "$ID$RES" | tee "$D/result.txt"
done
