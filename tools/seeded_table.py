#!/usr/bin/env python3
"""Print the markdown table of seeded changes and what the checks said (from seeded/*/meta.json and result.txt)."""
import json, os, glob
rows=[]
for d in sorted(glob.glob('/verif/seeded/C*')):
    i=os.path.basename(d)
    try: m=json.load(open(d+'/meta.json'))
    except Exception: continue
    r=open(d+'/result.txt').read().strip() if os.path.exists(d+'/result.txt') else 'not run'
    r=r.replace(i+' ','',1)
    rows.append((i, ', '.join(os.path.basename(f) for f in m.get('files',[])), m.get('summary','').replace('|','/')[:230], m.get('trigger','').replace('|','/')[:200], r))
print('| id | file | seeded change | needs | result of `check <id>` with the change applied |')
print('|----|------|---------------|-------|------------------------------------------------|')
for r in rows: print('| '+' | '.join(r)+' |')
print()
print('Reverse-of-fix seeds (`seeded/regress-<commit>/`, quick tier only):')
print()
print('| commit | property | result |')
print('|--------|----------|--------|')
for d in sorted(glob.glob('/verif/seeded/regress-*')):
    if os.path.exists(d+'/result.txt'):
        t=open(d+'/result.txt').read().strip().split(' ',2)
        print('| %s | %s | %s |' % (t[0], t[1] if len(t)>1 else '', t[2] if len(t)>2 else ''))
