#!/usr/bin/env python3
"""Print the markdown tables of seeded changes and what the checks said (from seeded*/<ID>/meta.json and result.txt)."""
import json, os, glob
def table(root, title):
    rows=[]
    for d in sorted(glob.glob(root+'/C*')):
        i=os.path.basename(d)
        try: m=json.load(open(d+'/meta.json'))
        except Exception: continue
        r=open(d+'/result.txt').read().strip() if os.path.exists(d+'/result.txt') else 'not run'
        r=r.replace(i+' ','',1)
        first=open(d+'/first_result.txt').read().strip() if os.path.exists(d+'/first_result.txt') else ''
        rows.append((i.split('-')[0], ', '.join(os.path.basename(f) for f in m.get('files',[])), m.get('summary','').replace('|','/')[:170], first, r))
    print(title); print()
    print('| id | file | seeded change (abridged) | first run | with the checks as committed |')
    print('|----|------|--------------------------|-----------|------------------------------|')
    for r in rows: print('| '+' | '.join(r)+' |')
    print()
table('/verif/seeded', '**Round 1** (`seeded/<ID>/`)')
if os.path.isdir('/verif/seeded/round2'): table('/verif/seeded/round2', '**Round 2** (`seeded/round2/<ID>/`)')
if os.path.isdir('/verif/seeded/round3'): table('/verif/seeded/round3', '**Round 3** (`seeded/round3/<ID>/`, twelve properties)')
if os.path.isdir('/verif/seeded/round4'): table('/verif/seeded/round4', '**Round 4** (`seeded/round4/<ID>/`, the four scheduling properties)')
if os.path.isdir('/verif/seeded/round5'): table('/verif/seeded/round5', '**Round 5** (`seeded/round5/<ID>/`: C09, C12, C19, C20)')
print('**Reverse-of-fix seeds** (`seeded/regress-<commit>/`, quick tier):')
print()
print('| commit | property | result |')
print('|--------|----------|--------|')
for d in sorted(glob.glob('/verif/seeded/regress-*')):
    if os.path.exists(d+'/result.txt'):
        t=open(d+'/result.txt').read().strip().split(' ',2)
        print('| %s | %s | %s |' % (t[0], t[1] if len(t)>1 else '', t[2] if len(t)>2 else ''))
